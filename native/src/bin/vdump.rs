//! vdump: runs the real compiler front end + table construction (and optionally the real
//! generator) on a grammar file and writes the plain-data dump of grammar and table.
//!
//! usage: vdump <grammar.rustemo> --out <dump.json> [--glr] [--table lalr|pager|rn]
//!        [--prefer-shifts] [--no-pse] [--ms=false] [--lm=false] [--go=true|false]
//!        [--partial] [--gen <dir> [--arrays] [--builder generic|default|custom] [--lexer custom]]
use rustemo_compiler::{verif, BuilderType, GeneratorTableType, LexerType, ParserAlgo, Settings, TableType};
use std::path::{Path, PathBuf};

fn main() {
    let args: Vec<String> = std::env::args().skip(1).collect();
    let mut grammar: Option<PathBuf> = None;
    let mut out: Option<PathBuf> = None;
    let mut gen: Option<PathBuf> = None;
    let mut s = Settings::new();
    let mut table: Option<TableType> = None;
    let mut i = 0;
    let mut go: Option<bool> = None;
    while i < args.len() {
        let a = args[i].as_str();
        match a {
            "--out" => { i += 1; out = Some(PathBuf::from(&args[i])); }
            "--gen" => { i += 1; gen = Some(PathBuf::from(&args[i])); }
            "--glr" => s = s.parser_algo(ParserAlgo::GLR),
            "--table" => {
                i += 1;
                table = Some(match args[i].as_str() { "lalr" => TableType::LALR, "pager" => TableType::LALR_PAGER, _ => TableType::LALR_RN });
            }
            "--prefer-shifts" => s = s.prefer_shifts(true),
            "--no-pse" => s = s.prefer_shifts_over_empty(false),
            "--ms=false" => s = s.lexical_disamb_most_specific(false),
            "--lm=false" => s = s.lexical_disamb_longest_match(false),
            "--go=true" => go = Some(true),
            "--go=false" => go = Some(false),
            "--partial" => s = s.partial_parse(true),
            "--arrays" => s = s.generator_table_type(GeneratorTableType::Arrays),
            "--builder" => {
                i += 1;
                s = s.builder_type(match args[i].as_str() { "generic" => BuilderType::Generic, "custom" => BuilderType::Custom, _ => BuilderType::Default });
            }
            "--lexer" => { i += 1; if args[i] == "custom" { s = s.lexer_type(LexerType::Custom); } }
            "--fancy" => s = s.fancy_regex(true),
            x if x.starts_with("--") => { eprintln!("unknown option {x}"); std::process::exit(2); }
            x => grammar = Some(PathBuf::from(x)),
        }
        i += 1;
    }
    if let Some(t) = table { s = s.table_type(t); }
    if let Some(g) = go { s = s.lexical_disamb_grammar_order(g); }
    let grammar = grammar.expect("grammar path");
    let res = std::panic::catch_unwind(|| verif::dump_json(&grammar, &s));
    let json = match res {
        Ok(Ok(j)) => j,
        Ok(Err(e)) => format!("{{\"error\":{:?}}}", format!("{e}")),
        Err(_) => "{\"panic\":true}".to_string(),
    };
    match out {
        Some(p) => std::fs::write(p, &json).unwrap(),
        None => println!("{json}"),
    }
    if let Some(dir) = gen {
        std::fs::create_dir_all(&dir).unwrap();
        let s2 = s.clone().out_dir_root(dir.clone()).out_dir_actions_root(dir.clone()).root_dir(PathBuf::from(grammar.parent().unwrap_or(Path::new(".")))).force(true);
        let r = std::panic::catch_unwind(|| s2.process_grammar(&grammar));
        match r {
            Ok(Ok(())) => {}
            Ok(Err(e)) => { eprintln!("GENERATE-ERROR: {e}"); std::process::exit(3); }
            Err(_) => { eprintln!("GENERATE-PANIC"); std::process::exit(4); }
        }
    }
}
