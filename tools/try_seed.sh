#!/bin/bash
# tools/try_seed.sh <seed-dir> <property> [tier] : applies the seeded change to /repo, runs the
# check, and undoes the change straight afterwards.
set -u
seed=$1; prop=$2; tier=${3:-quick}
cd /verif
git -C /repo apply "$(realpath $seed/patch.diff)" || { echo "APPLY FAILED"; exit 3; }
./check "$prop" --tier "$tier" > ".work/seed-$(basename $seed)-$prop.out" 2>&1
rc=$?
git -C /repo checkout -- .
echo "seed=$(basename $seed) prop=$prop tier=$tier rc=$rc"
grep -E "VIOLATION|INCONCLUSIVE|KNOWN-FINDING|failed:" ".work/seed-$(basename $seed)-$prop.out" | cut -c1-220 | head -8
exit $rc
