#!/bin/bash
# tools/confirm_seed.sh <seed-name> : confirms a seeded change in a scratch worktree:
# suite passes with the change, demo fails with it, demo passes without it.
set -u
name=$1
wt=/tmp/wtc-$name
log=/verif/.work/confirm-$name.log
rm -rf $wt; git -C /repo worktree add -q --detach $wt HEAD || exit 9
mkdir -p $wt/SEED && cp -r /verif/seeded/$name/. $wt/SEED/
export CARGO_TARGET_DIR=$wt/target CARGO_NET_OFFLINE=true
cd $wt
demo=$(ls SEED/run_demo.sh SEED/demo/run_demo.sh SEED/demo/run.sh SEED/run.sh SEED/demo/demo.sh 2>/dev/null | head -1)
{
echo "== demo script: $demo"
git apply SEED/patch.diff && echo "patch applied"
echo "== suite with change"; cargo test --workspace --no-fail-fast --offline 2>&1 | grep -E "^test result" | awk '{p+=$4; f+=$6} END {print "passed",p,"failed",f}'
echo "== demo with change"; bash $demo > /tmp/demo-$name-mut.out 2>&1; echo "rc=$?"; tail -3 /tmp/demo-$name-mut.out
git apply -R SEED/patch.diff && echo "patch reverted"
echo "== demo without change"; bash $demo > /tmp/demo-$name-orig.out 2>&1; echo "rc=$?"; tail -3 /tmp/demo-$name-orig.out
} > $log 2>&1
cd /; git -C /repo worktree remove --force $wt; git -C /repo worktree prune
echo "confirmed $name: $(grep -E 'passed|rc=' $log | tr '\n' ' ')"
