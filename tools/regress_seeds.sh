#!/bin/bash
# Runs every seeded change against the quick check of the property it breaks and prints a
# summary line per seed (rc=1 + VIOLATION expected, except for the seeds documented as missed).
cd /verif
for d in seeded/*/; do
  n=$(basename $d)
  p=$(python3 -c "import json;print(json.load(open('$d/meta.json'))['breaks_property'])")
  tools/try_seed.sh $d $p quick > .work/regress-$n.out 2>&1
  echo "$n $p $(grep -E '^seed=' .work/regress-$n.out | sed 's/.*rc=/rc=/') $(grep -c VIOLATION .work/regress-$n.out) violation-lines"
done
