#!/bin/bash
cd /verif
for n in "$@"; do
  d=seeded/$n
  p=$(python3 -c "import json;print(json.load(open('$d/meta.json'))['breaks_property'])")
  tools/try_seed.sh $d $p quick > .work/regress-$n.out 2>&1
  echo "$n $p $(grep -E '^seed=' .work/regress-$n.out | sed 's/.*rc=/rc=/') $(grep -c VIOLATION .work/regress-$n.out) violation-lines"
done
