#!/usr/bin/env python3
"""Regenerates /verif/MANIFEST.json from vlib/registry.py (keeps residuals/assumptions in sync)."""
import json, sys
sys.path.insert(0, '/verif/vlib')
import registry

TEXT = {
 "C01": "For a corpus of 26 deterministic grammar/table-type pairs the solver decides, over ALL token strings up to the stated length, that the LR automaton over the table the real compiler computes accepts exactly the sentences (independent Earley reference), rejects at the first offending token and only performs valid derivation steps. Right level: the whole compile x parse composition cannot be executed symbolically; the table construction runs concretely on /repo's current tree, the input axis is fully symbolic within the bound, the grammar axis is a finite corpus (stated).",
 "C02": "Bounded model checking of the real LR parser code from before its loop (first lookahead, one symbolic iteration, Accept) from an arbitrary valid state = textbook LR step; of the real next_token (partial parsing rule); of the real TreeBuilder stack discipline and get_result; of conflict resolution (only removes candidates); plus derivation validity of every accepted run of the corpus automata for all token strings up to the bound.",
 "C03": "Only the right-nulled reduction rule (table side of the GLR forest property) is decided, on the real sliced code, for all productions up to length 4; the GLR reducer and forest decoding do not finish under CBMC and are stated residuals (two seeded reducer changes are known to be missed).",
 "C04": "FIRST / right-nulled-length / is_reducing / LALR-merge / group_per_next_symbol kernels decided on the real (sliced) functions for all inputs in the bounds, plus conflict-freedom and exact language acceptance of the real tables of a corpus of LALR(1) and LR(1)-not-LALR(1) grammars under LALR and LALR_PAGER for all token strings up to the bound; whole-automaton fixpoints for arbitrary grammars are not decided.",
 "C05": "The complete documented S/R and R/R resolution rule, including 'resolving never aborts', decided by the solver on the real (sliced) code for all priority/associativity/flag combinations and all cell shapes up to 3 entries; the shift priority (max over the state's items) decided on the sliced group_per_next_symbol.",
 "C06": "The whole lexical-disambiguation chain (real sort_terminals slice -> real unsliced StringLexer -> real LR/GLR selection slices) decided for every priority/kind/match assignment of 3-4 overlapping terminals under all strategy switches against the statement's order of strategies.",
 "C08": "For every corpus grammar (LR, GLR, layout, custom-lexer) and both generated-table layouts, every (state,token) action query, every existing (state,non-terminal) goto and every expected-token query of the generated, unchanged parser module is decided equal to the table the compiler computed (symbolic indexes; per grammar the claim is complete, the grammar axis is a finite corpus).",
 "C09": "The rule->production meta-data inheritance and field mapping decided on the real (sliced) code for all presence/value combinations; for three corpus grammars using EMPTY inside productions and ? * +[sep] sugar the language of the analysed grammar equals the language of the written grammar for all token strings up to the bound; the rest of the front end is out of reach (stated).",
 "C12": "Error position = first offending token decided for every token string up to the bound on the corpus tables; error span construction, the no-token error path of next_token, whitespace skipping and the line/column law decided on the real runtime functions for all UTF-8 inputs up to the bound.",
 "C13": "Line/column law, token value = input[span], the span logic of one step of the real LR parser code (shift span, reduced span, empty-reduction span, restore) and the GLR solution-span expression decided for all inputs/states within the bounds.",
 "C14": "Whitespace-layout bookkeeping (maximal whitespace prefix, attached to the next leaf, no stale layout, preserved across re-lexing after a reduction) decided on the real functions; Layout-rule sub-parser and whole-parse round trip not decided.",
 "C15": "Panic-freedom of the runtime leaf functions on arbitrary valid UTF-8 up to the bound and of one step of the real LR parser code incl. an unexpected token kind from a custom lexer; whole-loop termination on real text, tracing paths and the GLR reducer not decided.",
 "C16": "Panic-freedom of the token-value actions (sliced) on all accepted token texts of the stated length and unreachability of every assert!/panic! in conflict resolution; as a by-product the real compiler is run natively on ~40 corpus grammar/setting pairs and a panic there is reported (concrete falsification, not a solver verdict); the String/B-tree parts of the compiler are otherwise out of reach (stated).",
}
m = json.load(open('/verif/MANIFEST.json'))
checks = []
for pid in sorted(TEXT):
    spec = registry.PROPS[pid]
    checks.append({
        "property_id": pid,
        "quick_cmd": "./check %s --tier quick" % pid,
        "thorough_cmd": "./check %s --tier thorough" % pid,
        "evidence_file": "evidence/%s.json" % pid,
        "replay_cmd_template": "./check %s --replay {path}" % pid,
        "engine": "kani-cbmc",
        "level_claimed": {"category": spec["level"], "text": TEXT[pid], "design_ref": "DESIGN.md §5 %s" % pid},
        "level_note": "Decided inside the stated bounds only. Not decided (residual): " + spec.get("residual", "") + " Assumptions/stubs: " + "; ".join(spec.get("assumptions", [])),
        "technique": "solver-based checking of the real code: Kani 0.68 / CBMC 6.11 bounded model checking with symbolic inputs (kani::any), unwinding assertions on, counterexamples replayed natively",
    })
m["checks"] = checks
m["hooks"]["source_commits"] = ["f9c02c0", "7136dab"]
json.dump(m, open('/verif/MANIFEST.json', 'w'), indent=1)
print("checks:", [c["property_id"] for c in checks], "n/a:", [x["property_id"] for x in m["not_applicable"]])
