//! Drives the re-hosted real `LRParser` with the real table of a corpus grammar and a
//! symbolic token string, and checks the loop-level clauses of C01, C02, C12, C13, C15.
use crate::avec::AVec;
use crate::builder::Builder;
use crate::context::Context;
use crate::lexer::{Lexer, Token};
use crate::lr::builder::LRBuilder;
use crate::lr::context::LRContext;
use crate::lr::parser::{Action, LRParser, ParserDefinition};
use crate::parser::{Parser, State};
use crate::shadow::Vec;
use crate::input::Input;
use crate::position::{Position, SourceSpan};
use rustemo::Error;
use std::marker::PhantomData;

/// What the generator emits per corpus grammar (plain tables from the dump hook plus the
/// reference tables computed by the independent Earley recognizer of gen_e4.py).
pub trait Tables: 'static {
    const NT: usize; // terminals incl. STOP (index 0)
    const NN: usize; // non-terminals incl. EMPTY, AUG
    const NS: usize;
    const NP: usize;
    const START_SYM: u8; // symbol index of the start rule
    const MAXLEN: usize; // reference tables cover token strings up to this length
    const PARTIAL: bool;
    /// (number of actions, first action) of a cell; action = (kind 1 shift/2 reduce/3 accept, a, b)
    fn cell(state: u8, term: u8) -> (u8, (u8, u8, u8));
    fn cell2(state: u8, term: u8) -> (u8, u8, u8); // second action if any (GLR / conflicts)
    fn goto(state: u8, nonterm: u8) -> u8; // 255 = none
    fn expected(state: u8) -> &'static [(u8, bool)];
    fn prod_nt(prod: u8) -> u8;
    fn prod_rhs(prod: u8) -> &'static [u8];
    /// reference: bit0 = the string is a sentence; bits 1.. = unused
    fn reference(index: usize) -> (bool, u8); // (member, first_error_index)
    fn ref_offset(n: usize) -> usize;
}

pub struct St<G>(pub u8, PhantomData<G>);
pub struct Tk<G>(pub u8, PhantomData<G>);
pub struct Pk<G>(pub u8, PhantomData<G>);
pub struct Ntk<G>(pub u8, PhantomData<G>);
macro_rules! newtype {
    ($t:ident) => {
        impl<G> Clone for $t<G> {
            fn clone(&self) -> Self {
                $t(self.0, PhantomData)
            }
        }
        impl<G> Copy for $t<G> {}
        impl<G> PartialEq for $t<G> {
            fn eq(&self, o: &Self) -> bool {
                self.0 == o.0
            }
        }
        impl<G> Eq for $t<G> {}
        impl<G> Default for $t<G> {
            fn default() -> Self {
                $t(0, PhantomData)
            }
        }
        impl<G> std::fmt::Debug for $t<G> {
            fn fmt(&self, f: &mut std::fmt::Formatter<'_>) -> std::fmt::Result {
                Ok(())
            }
        }
        impl<G> $t<G> {
            pub fn new(x: u8) -> Self {
                $t(x, PhantomData)
            }
        }
    };
}
newtype!(St);
newtype!(Tk);
newtype!(Pk);
newtype!(Ntk);
impl<G: Tables> State for St<G> {
    fn default_layout() -> Option<Self> {
        None
    }
}
impl<G: Tables> From<Pk<G>> for Ntk<G> {
    fn from(p: Pk<G>) -> Self {
        Ntk::new(G::prod_nt(p.0))
    }
}

/// The table-driven `ParserDefinition`: answers exactly what the dumped table holds.
pub struct Def<G>(PhantomData<G>);
fn act<G: Tables>(a: (u8, u8, u8)) -> Action<St<G>, Pk<G>> {
    match a.0 {
        1 => Action::Shift(St::new(a.1)),
        2 => Action::Reduce(Pk::new(a.1), a.2 as usize),
        3 => Action::Accept,
        _ => Action::Error,
    }
}
impl<G: Tables> ParserDefinition<St<G>, Pk<G>, Tk<G>, Ntk<G>> for Def<G> {
    fn actions(&self, state: St<G>, token: Tk<G>) -> Vec<Action<St<G>, Pk<G>>> {
        let mut v = Vec::new();
        let (n, a) = G::cell(state.0, token.0);
        if n >= 1 {
            v.push(act::<G>(a));
        }
        if n >= 2 {
            v.push(act::<G>(G::cell2(state.0, token.0)));
        }
        v
    }
    fn goto(&self, state: St<G>, nonterm: Ntk<G>) -> St<G> {
        let g = G::goto(state.0, nonterm.0);
        assert!(g != 255, "C15 GOTO on a missing table entry");
        St::new(g)
    }
    fn expected_token_kinds(&self, state: St<G>) -> Vec<(Tk<G>, bool)> {
        let mut v = Vec::new();
        let e = G::expected(state.0);
        let mut i = 0;
        while i < e.len() {
            v.push((Tk::new(e[i].0), e[i].1));
            i += 1;
        }
        v
    }
    fn longest_match() -> bool {
        // token selection among several matches is decided under C06; here at most one
        // token is found per position
        false
    }
    fn grammar_order() -> bool {
        true
    }
}

pub type Ctx<'i, G> = LRContext<'i, [u8], St<G>, Tk<G>>;

/// Token-level lexer: the input is a byte string (`[u8]` input: positions are plain
/// offsets; the line/column law of `str` is decided in E1) of N one-byte tokens whose kinds are the
/// symbolic array `toks`; a token is recognised only if its kind is expected in the
/// current state (context-aware lexing), STOP only at the end of the input.
pub struct TokLexer<G, const N: usize> {
    pub toks: [u8; N],
    pub n: usize,
    pub g: PhantomData<G>,
}
pub struct OneTok<'i, G>(Option<Token<'i, [u8], Tk<G>>>);
impl<'i, G> Iterator for OneTok<'i, G> {
    type Item = Token<'i, [u8], Tk<G>>;
    fn next(&mut self) -> Option<Self::Item> {
        self.0.take()
    }
}
impl<'i, G: Tables, const N: usize> Lexer<'i, Ctx<'i, G>, St<G>, Tk<G>> for TokLexer<G, N> {
    type Input = [u8];
    fn next_tokens(&self, context: &mut Ctx<'i, G>, input: &'i [u8], expected_tokens: Vec<(Tk<G>, bool)>) -> Box<dyn Iterator<Item = Token<'i, [u8], Tk<G>>> + 'i> {
        let pos = context.position().pos;
        let kind = if pos < self.n { self.toks[pos] } else { 0 };
        let mut found = false;
        let mut i = 0;
        while i < expected_tokens.len() {
            if expected_tokens[i].0 .0 == kind {
                found = true;
            }
            i += 1;
        }
        let tok = if found && pos <= self.n {
            let value = if pos < self.n { &input[pos..pos + 1] } else { &input[pos..pos] };
            Some(Token { kind: Tk::new(kind), value, span: value.span_from(context.position()) })
        } else {
            None
        };
        Box::new(OneTok(tok))
    }
}

/// Recording builder: checks that what the parser reports is a derivation of the input
/// (C02) with faithful spans (C13); keeps only a symbol/span stack.
pub struct RecBuilder<G, const N: usize> {
    pub toks: [u8; N],
    pub syms: AVec<(u8, usize, usize), 8>,
    pub leaves: usize,
    pub reductions: usize,
    pub g: PhantomData<G>,
}
impl<G, const N: usize> Builder for RecBuilder<G, N> {
    type Output = (usize, usize, Option<(u8, usize, usize)>, usize);
    fn get_result(&mut self) -> Self::Output {
        (self.leaves, self.reductions, self.syms.last().copied(), self.syms.len())
    }
}
impl<'i, G: Tables, const N: usize> LRBuilder<'i, [u8], Ctx<'i, G>, St<G>, Pk<G>, Tk<G>> for RecBuilder<G, N> {
    fn shift_action(&mut self, context: &Ctx<'i, G>, token: Token<'i, [u8], Tk<G>>) {
        assert!(self.leaves < N, "C02 no more leaves than input tokens");
        assert!(token.kind.0 == self.toks[self.leaves], "C02 leaves are the input tokens, in order");
        assert!(token.span.start.pos == self.leaves && token.span.end.pos == self.leaves + 1, "C13 token span is its place in the input");
        assert!(context.span() == token.span, "C13 context span at shift = token span");
        assert!(token.value.len() == 1, "C13 token value is the input at its span");
        self.syms.push((token.kind.0, token.span.start.pos, token.span.end.pos));
        self.leaves += 1;
    }
    fn reduce_action(&mut self, context: &Ctx<'i, G>, prod: Pk<G>, prod_len: usize) {
        assert!((prod.0 as usize) < G::NP, "C02 production exists");
        let rhs = G::prod_rhs(prod.0);
        assert!(prod_len == rhs.len(), "C02 reduction length = length of the production");
        assert!(self.syms.len() >= prod_len, "C02 enough sub-results for the reduction");
        let base = self.syms.len() - prod_len;
        let mut i = 0;
        while i < prod_len {
            assert!(self.syms[base + i].0 == rhs[i], "C02 children match the right-hand side");
            i += 1;
        }
        let sp = context.span();
        if prod_len > 0 {
            assert!(sp.start.pos == self.syms[base].1, "C13 span starts at the first child");
            assert!(sp.end.pos == self.syms[base + prod_len - 1].2, "C13 span ends at the last child");
        } else {
            // one-byte tokens, no layout: the end of the preceding token and the start of
            // the next one coincide with the number of leaves shifted so far
            assert!(sp.start.pos == sp.end.pos, "C13 empty non-terminal has a zero-width span");
            assert!(sp.start.pos == self.leaves, "C13 empty span lies between the preceding and the next token");
        }
        self.syms.truncate(base);
        self.syms.push((G::NT as u8 + G::prod_nt(prod.0), sp.start.pos, sp.end.pos));
        self.reductions += 1;
    }
}

pub const BUF: &[u8] = b"tttttttttttt";

pub fn no_fmt(_a: std::fmt::Arguments<'_>) -> String {
    String::new()
}

/// Draws a token string of length <= N over the user terminals of G.
#[cfg(kani)]
pub fn any_toks<G: Tables, const N: usize>() -> ([u8; N], usize) {
    let toks: [u8; N] = kani::any();
    let n: usize = kani::any();
    kani::assume(n <= N);
    let mut i = 0;
    while i < N {
        kani::assume(toks[i] >= 1 && (toks[i] as usize) < G::NT);
        i += 1;
    }
    (toks, n)
}

pub fn ref_index<G: Tables, const N: usize>(toks: &[u8; N], n: usize) -> usize {
    let a = G::NT - 1;
    let mut idx = 0usize;
    let mut mul = 1usize;
    let mut i = 0;
    while i < n {
        idx += (toks[i] as usize - 1) * mul;
        mul *= a;
        i += 1;
    }
    G::ref_offset(n) + idx
}

/// The harness body (whole re-hosted loop; kept for tiny bounds only - see DESIGN §2).
#[cfg(kani)]
pub fn run_rehosted<G: Tables, const N: usize>() {
    let (toks, n) = any_toks::<G, N>();
    let def: &'static Def<G> = &Def(PhantomData);
    let lexer = TokLexer::<G, N> { toks, n, g: PhantomData };
    let builder = RecBuilder::<G, N> { toks, syms: AVec::new(), leaves: 0, reductions: 0, g: PhantomData };
    let parser: LRParser<Ctx<G>, St<G>, Pk<G>, Tk<G>, Ntk<G>, Def<G>, TokLexer<G, N>, RecBuilder<G, N>, [u8]> =
        LRParser::new(def, St::new(0), G::PARTIAL, false, lexer, builder);
    let input: &'static [u8] = &BUF[..n];
    let res = parser.parse(input);
    let (member, first_err) = G::reference(ref_index::<G, N>(&toks, n));
    match &res {
        Ok((leaves, reductions, top, depth)) => {
            assert!(member, "C01 an accepted input is a sentence of the grammar");
            assert!(*leaves == n && *depth == 1, "C02 the leaves are exactly the tokens of the input");
        }
        Err(e) => {
            assert!(!member, "C01/C12 a sentence is never rejected");
        }
    }
    std::mem::forget(res);
    std::mem::forget(parser);
}

/// Outcome of the LR automaton on a token string.
#[derive(Clone, Copy, PartialEq, Eq)]
pub enum Outcome {
    Accept { consumed: usize },
    Reject { at: usize },
    /// the table itself is inconsistent (missing goto, bad reduction length, ...)
    Broken,
}

/// The textbook LR step relation over the dumped table (harness-side model of the loop;
/// that the real loop body performs exactly this step is decided separately, on the real
/// source, by the `step_*` harnesses). Also validates the derivation bottom-up (C02).
pub fn automaton<G: Tables, const N: usize, const STEPS: usize>(toks: &[u8; N], n: usize) -> Outcome {
    let mut states = [0u8; 16];
    let mut syms = [0u8; 16];
    let mut sp = 1usize; // states[0] = 0
    let mut pos = 0usize;
    let mut step = 0;
    while step < STEPS {
        let st = states[sp - 1];
        let mut kind = if pos < n { toks[pos] } else { 0 };
        // context-aware lexing: the token is found only if expected in this state
        let e = G::expected(st);
        let mut found = false;
        let mut stop_expected = false;
        let mut i = 0;
        while i < e.len() && i < 8 {
            if e[i].0 == kind {
                found = true;
            }
            if e[i].0 == 0 {
                stop_expected = true;
            }
            i += 1;
        }
        if !found {
            if G::PARTIAL && stop_expected {
                kind = 0;
            } else {
                return Outcome::Reject { at: pos };
            }
        }
        let (cnt, a) = G::cell(st, kind);
        if cnt == 0 {
            return Outcome::Broken;
        }
        match a.0 {
            1 => {
                if sp >= 16 || pos >= n {
                    return Outcome::Broken;
                }
                states[sp] = a.1;
                syms[sp] = kind;
                sp += 1;
                pos += 1;
            }
            2 => {
                let len = a.2 as usize;
                let rhs = G::prod_rhs(a.1);
                if len != rhs.len() || len >= sp {
                    return Outcome::Broken;
                }
                let mut j = 0;
                while j < len && j < 8 {
                    if syms[sp - len + j] != rhs[j] {
                        return Outcome::Broken; // C02: children must match the right-hand side
                    }
                    j += 1;
                }
                sp -= len;
                let nt = G::prod_nt(a.1);
                let g = G::goto(states[sp - 1], nt);
                if g == 255 || sp >= 16 {
                    return Outcome::Broken;
                }
                states[sp] = g;
                syms[sp] = G::NT as u8 + nt;
                sp += 1;
            }
            3 => {
                // C02: exactly the start symbol is left
                if sp != 2 || syms[1] != G::START_SYM {
                    return Outcome::Broken;
                }
                return Outcome::Accept { consumed: pos };
            }
            _ => return Outcome::Broken,
        }
        step += 1;
    }
    assert!(false, "BOUND: automaton step bound exceeded");
    Outcome::Broken
}

/// C01 / C12 / C02 / C04 (consequence) for one corpus grammar: for every token string of
/// length <= N, the automaton over the table the real compiler computed accepts iff the
/// string is a sentence (independent Earley reference), rejects at the first offending
/// token, and every accepted run is a valid bottom-up derivation.
#[cfg(kani)]
pub fn run<G: Tables, const N: usize, const STEPS: usize>() -> (bool, usize, usize) {
    let (toks, n) = any_toks::<G, N>();
    let out = automaton::<G, N, STEPS>(&toks, n);
    let (member, first_err) = G::reference(ref_index::<G, N>(&toks, n));
    match out {
        Outcome::Accept { consumed } => {
            assert!(member, "C01 an accepted input is a sentence of the grammar");
            assert!(consumed == n, "C02 the whole input is consumed");
        }
        Outcome::Reject { at } => {
            assert!(!member, "C01 a sentence is never rejected");
            assert!(at == first_err as usize, "C12 the error is at the first offending token");
        }
        Outcome::Broken => assert!(false, "C02 the table drives the automaton into an inconsistent step"),
    }
    (member, n, first_err as usize)
}
