// Included at the end of the re-hosted `lr::parser` module (so that the private items
// `ParseStack`, `StackItem`, `LRParser::next_token` are in scope).
//
// One iteration of the real loop of `LRParser::parse_with_context` (its body is sliced
// byte for byte into gen/lr_loop_body.rs) from an ARBITRARY valid parser state, with a
// symbolic table answer - compared with the textbook LR step. Decides, on the real source:
//   C02  Reduce(prod,len) pops len states and takes the GOTO of the production's non-terminal
//   C13  the span pushed on shift / reduce (first child start .. last child end; empty rule)
//   C14  the layout found before the lookahead survives re-lexing after a reduction
//   C15  an empty action cell (custom lexer returning an unexpected kind) is an Err, not a panic
#[cfg(kani)]
pub mod step {
    use super::*;
    use crate::builder::Builder;
    use crate::lr::builder::LRBuilder;
    use crate::lr::context::LRContext;
    use crate::position::Position;
    use std::cell::Cell;

    #[derive(Clone, Copy, PartialEq, Eq, Default, Debug)]
    pub struct St(pub u8);
    impl State for St {
        fn default_layout() -> Option<Self> {
            None
        }
    }
    #[derive(Clone, Copy, PartialEq, Eq, Default, Debug)]
    pub struct Tk(pub u8);
    #[derive(Clone, Copy, PartialEq, Eq, Debug)]
    pub struct Pk(pub u8);
    #[derive(Clone, Copy, PartialEq, Eq, Debug)]
    pub struct Ntk(pub u8);
    impl From<Pk> for Ntk {
        fn from(p: Pk) -> Ntk {
            Ntk(p.0 ^ 0x55)
        }
    }
    type Ctx<'i> = LRContext<'i, [u8], St, Tk>;

    /// Symbolic table: answers one action / one goto, and records what it was asked.
    pub struct SymDef {
        pub n_actions: usize,
        pub action: Action<St, Pk>,
        pub goto_to: St,
        pub asked_action: Cell<Option<(St, Tk)>>,
        pub asked_goto: Cell<Option<(St, Ntk)>>,
    }
    impl ParserDefinition<St, Pk, Tk, Ntk> for SymDef {
        fn actions(&self, state: St, token: Tk) -> Vec<Action<St, Pk>> {
            self.asked_action.set(Some((state, token)));
            let mut v = Vec::new();
            if self.n_actions >= 1 {
                v.push(self.action);
            }
            if self.n_actions >= 2 {
                v.push(Action::Accept);
            }
            v
        }
        fn goto(&self, state: St, nonterm: Ntk) -> St {
            self.asked_goto.set(Some((state, nonterm)));
            self.goto_to
        }
        fn expected_token_kinds(&self, _state: St) -> Vec<(Tk, bool)> {
            let mut v = Vec::new();
            v.push((Tk(1), false));
            v
        }
        fn longest_match() -> bool {
            false
        }
        fn grammar_order() -> bool {
            true
        }
    }

    /// Lexer stand-in for the *next* lookahead: finds a symbolic token at the current
    /// position and (like a whitespace-skipping lexer) overwrites the layout.
    pub struct SymLexer {
        pub found: bool,
        pub kind: Tk,
        pub len: usize,
        pub new_layout: bool,
    }
    pub struct One<'i>(Option<Token<'i, [u8], Tk>>);
    impl<'i> Iterator for One<'i> {
        type Item = Token<'i, [u8], Tk>;
        fn next(&mut self) -> Option<Self::Item> {
            self.0.take()
        }
    }
    impl<'i> Lexer<'i, Ctx<'i>, St, Tk> for SymLexer {
        type Input = [u8];
        fn next_tokens(&self, context: &mut Ctx<'i>, input: &'i [u8], _expected: Vec<(Tk, bool)>) -> Box<dyn Iterator<Item = Token<'i, [u8], Tk>> + 'i> {
            let p = context.position();
            context.set_layout_ahead(if self.new_layout { Some(&input[0..0]) } else { None });
            Box::new(One(if self.found {
                let value = &input[p.pos..p.pos + self.len];
                Some(Token { kind: self.kind, value, span: value.span_from(p) })
            } else {
                None
            }))
        }
    }

    #[derive(Clone, Copy, PartialEq, Eq)]
    pub enum Call {
        None,
        Shift { kind: Tk, start: usize, end: usize, ctx_span: (usize, usize), layout: Option<usize> },
        Reduce { prod: Pk, len: usize, ctx_span: (usize, usize), layout: Option<usize> },
    }
    pub struct Rec {
        pub calls: usize,
        pub last: Call,
    }
    impl Builder for Rec {
        type Output = usize;
        fn get_result(&mut self) -> usize {
            self.calls
        }
    }
    fn lay(l: Option<&[u8]>) -> Option<usize> {
        l.map(|s| s.as_ptr() as usize)
    }
    impl<'i> LRBuilder<'i, [u8], Ctx<'i>, St, Pk, Tk> for Rec {
        fn shift_action(&mut self, context: &Ctx<'i>, token: Token<'i, [u8], Tk>) {
            self.calls += 1;
            let s = context.span();
            self.last = Call::Shift { kind: token.kind, start: token.span.start.pos, end: token.span.end.pos, ctx_span: (s.start.pos, s.end.pos), layout: lay(context.layout_ahead()) };
        }
        fn reduce_action(&mut self, context: &Ctx<'i>, prod: Pk, prod_len: usize) {
            self.calls += 1;
            let s = context.span();
            self.last = Call::Reduce { prod, len: prod_len, ctx_span: (s.start.pos, s.end.pos), layout: lay(context.layout_ahead()) };
        }
    }

    type P<'i> = LRParser<'i, Ctx<'i>, St, Pk, Tk, Ntk, SymDef, SymLexer, Rec, [u8]>;

    impl<'i> P<'i> {
        /// One iteration of the loop of `parse_with_context`: Ok(true) = the loop was left
        /// by `break` (Accept), Ok(false) = one step done, Err = the step returned an error.
        fn verif_step(
            &self,
            input: &'i [u8],
            context: &mut Ctx<'i>,
            parse_stack: &mut ParseStack<St, [u8], Ctx<'i>, Tk>,
            state_io: &mut St,
            token_io: &mut Token<'i, [u8], Tk>,
        ) -> Result<bool> {
            let mut builder = self.builder.borrow_mut();
            let layout_parser: LayoutParser<'i, Ctx<'i>, St, Pk, Tk, Ntk, SymDef, SymLexer, [u8]> = None;
            let mut state = *state_io;
            let mut next_token = token_io.clone();
            loop {
                include!("../gen/lr_loop_body.rs");
                *state_io = state;
                *token_io = next_token;
                return Ok(false);
            }
            Ok(true)
        }
    }

    const INPUT: &[u8] = b"0123456789abcdef0123456789abcdef";

    /// K = number of items on the parse stack before the step.
    pub struct Facts {
        pub which: u8,
        pub ok: bool,
        pub rlen: usize,
        pub tl: usize,
        pub nonempty_last: bool,
        pub layout: bool,
    }

    fn run<const K: usize>(empty_cell: bool) -> Facts {
        // ---- arbitrary valid state -------------------------------------------------------
        // spans of the stack items are ordered and end before the lexing position
        let mut bounds = [0usize; 10];
        let mut i = 0;
        let mut prev = 0usize;
        while i < 2 * K {
            let d: usize = kani::any();
            kani::assume(d <= 2);
            bounds[i] = prev + d;
            prev = bounds[i];
            i += 1;
        }
        let mut stack: Vec<StackItem<St>> = Vec::new();
        let mut states = [St(0); 5];
        let mut i = 0;
        while i < K {
            states[i] = St(kani::any());
            stack.push(StackItem { state: states[i], span: SourceSpan { start: Position { pos: bounds[2 * i] }, end: Position { pos: bounds[2 * i + 1] } } });
            i += 1;
        }
        let mut parse_stack: ParseStack<St, [u8], Ctx, Tk> = ParseStack { stack, phantom: PhantomData };
        // context: span of the last shifted token (ends at or before the position), position
        let cs_a: usize = kani::any();
        let cs_b: usize = kani::any();
        let skipped: usize = kani::any();
        kani::assume(cs_a <= cs_b && cs_b <= prev + 2 && skipped <= 2);
        let p = cs_b + skipped; // layout may lie between the last token and the lookahead
        kani::assume(cs_b >= prev);
        let mut context: Ctx = LRContext::new(Position { pos: p });
        context.set_span(SourceSpan { start: Position { pos: cs_a }, end: Position { pos: cs_b } });
        let had_layout: bool = kani::any();
        let layout0: Option<&[u8]> = if had_layout { Some(&INPUT[cs_b..p]) } else { None };
        context.set_layout_ahead(layout0);
        // lookahead token at the position
        let tk = Tk(kani::any());
        let tl: usize = kani::any();
        kani::assume(tl <= 2);
        let mut next_token = Token { kind: tk, value: &INPUT[p..p + tl], span: SourceSpan { start: Position { pos: p }, end: Position { pos: p + tl } } };
        let mut state = states[K - 1];
        context.set_state(state);

        // ---- symbolic table answer ---------------------------------------------------------
        let which: u8 = kani::any();
        kani::assume(which < 4);
        let tgt = St(kani::any());
        let prod = Pk(kani::any());
        let rlen: usize = kani::any();
        kani::assume(rlen < K);
        let action = match which {
            0 => Action::Shift(tgt),
            1 => Action::Reduce(prod, rlen),
            2 => Action::Accept,
            _ => Action::Error,
        };
        let n_actions: usize = if empty_cell { 0 } else if kani::any() { 1 } else { 2 };
        let goto_to = St(kani::any());
        let def: &'static SymDef = Box::leak(Box::new(SymDef { n_actions, action, goto_to, asked_action: Cell::new(None), asked_goto: Cell::new(None) }));
        let nl = SymLexer { found: kani::any(), kind: Tk(1), len: kani::any(), new_layout: kani::any() };
        kani::assume(nl.len <= 1);
        let nl_found = nl.found;
        let nl_len = nl.len;
        let parser: P = LRParser::new(def, St(0), false, false, nl, Rec { calls: 0, last: Call::None });

        // ---- one step of the real loop body -----------------------------------------------
        let r = parser.verif_step(INPUT, &mut context, &mut parse_stack, &mut state, &mut next_token);

        // ---- the textbook step ------------------------------------------------------------
        assert!(def.asked_action.get() == Some((states[K - 1], tk)), "C02 the action is looked up for (top state, lookahead kind)");
        let b = parser.builder.borrow();
        let st = &parse_stack.stack;
        if n_actions == 0 {
            assert!(r.is_err(), "C15 an empty action cell surfaces as an error result");
            assert!(st.len() == K && b.calls == 0);
        } else {
            match which {
                0 => {
                    // Shift
                    assert!(st.len() == K + 1, "C02 shift pushes one state");
                    assert!(st[K].state == tgt, "C02 shift enters the target state");
                    assert!(st[K].span.start.pos == p && st[K].span.end.pos == p + tl, "C13 shifted span = [position, position after the token]");
                    assert!(b.calls == 1, "C02 one builder call per step");
                    assert!(b.last == Call::Shift { kind: tk, start: p, end: p + tl, ctx_span: (p, p + tl), layout: lay(layout0) }, "C02/C14 shift_action gets the token, its span and the layout before it");
                    if nl_found {
                        assert!(r.is_ok() && !*r.as_ref().unwrap());
                        assert!(state == tgt);
                        assert!(context.position().pos == p + tl, "C13 position advances by the token");
                        assert!(next_token.span.start.pos == p + tl && next_token.span.end.pos == p + tl + nl_len, "C13 next lookahead starts where the token ended");
                        assert!(context.span().start.pos == p && context.span().end.pos == p + tl);
                    } else {
                        assert!(r.is_err(), "C12 no lookahead after the shift is an error");
                    }
                }
                1 => {
                    // Reduce
                    let keep = K - rlen;
                    assert!(def.asked_goto.get() == Some((states[keep - 1], Ntk::from(prod))), "C02 GOTO is taken from the state below the popped ones, on the production's non-terminal");
                    assert!(st.len() == keep + 1, "C02 reduce pops prod_len states and pushes one");
                    assert!(st[keep].state == goto_to, "C02 reduce enters the GOTO state");
                    let sp = st[keep].span;
                    if rlen > 0 {
                        assert!(sp.start.pos == bounds[2 * keep], "C13 reduced span starts at the first child");
                        assert!(sp.end.pos == bounds[2 * K - 1], "C13 reduced span ends at the last child");
                    } else {
                        assert!(sp.start.pos == sp.end.pos, "C13 empty non-terminal has a zero-width span");
                        assert!(sp.start.pos >= cs_b && sp.start.pos <= p, "C13 empty span lies between the end of the preceding token and the start of the next");
                    }
                    assert!(b.calls == 1, "C02 one builder call per step");
                    assert!(b.last == Call::Reduce { prod, len: rlen, ctx_span: (sp.start.pos, sp.end.pos), layout: lay(layout0) }, "C02/C13 reduce_action sees the production, its length and the reduced span");
                    let mut i = 0;
                    while i < keep {
                        assert!(st[i].state == states[i] && st[i].span.start.pos == bounds[2 * i] && st[i].span.end.pos == bounds[2 * i + 1], "C02 states below the reduction are untouched");
                        i += 1;
                    }
                    if nl_found {
                        assert!(r.is_ok() && !*r.as_ref().unwrap());
                        assert!(state == goto_to);
                        assert!(context.position().pos == p, "C13 a reduction does not move the position");
                        assert!(context.span().start.pos == cs_a && context.span().end.pos == cs_b, "C13 the context span of the last token is restored after a reduction");
                        assert!(lay(context.layout_ahead()) == lay(layout0), "C14 the layout before the lookahead survives re-lexing");
                        assert!(next_token.span.start.pos == p);
                    } else {
                        assert!(r.is_err(), "C12 no lookahead after the reduction is an error");
                    }
                }
                2 => {
                    assert!(r.is_ok() && *r.as_ref().unwrap(), "Accept leaves the loop");
                    assert!(st.len() == K && b.calls == 0 && context.position().pos == p);
                }
                _ => {
                    assert!(r.is_err(), "C15 Action::Error surfaces as an error result");
                    assert!(st.len() == K && b.calls == 0);
                }
            }
        }
        drop(b);
        let facts = Facts { which, ok: r.is_ok(), rlen, tl, nonempty_last: cs_a < cs_b, layout: had_layout && skipped > 0 };
        std::mem::forget(r);
        std::mem::forget(parser);
        facts
    }

    macro_rules! step {
        ($name:ident, $k:expr, $empty:expr) => {
            #[kani::proof]
            #[kani::unwind(10)]
            #[kani::stub(std::fmt::format, crate::drive::no_fmt)]
            pub fn $name() {
                let f = run::<$k>($empty);
                if $empty {
                    kani::cover!(!f.ok, "empty action cell reached");
                } else {
                    kani::cover!(f.ok && f.which == 0 && f.tl == 2, "shift of a two-byte token");
                    kani::cover!(f.ok && f.which == 1 && f.rlen == 0 && f.nonempty_last, "empty reduction after a non-empty token");
                    kani::cover!(f.ok && f.which == 1 && f.rlen + 1 == $k && f.layout, "reduction of everything above the bottom state, layout before the lookahead");
                    kani::cover!(f.ok && f.which == 2, "accept");
                }
            }
        };
    }
    step!(step_1, 1, false);
    step!(step_2, 2, false);
    step!(step_3, 3, false);
    step!(step_4, 4, false);
    step!(step_2_empty_cell, 2, true);

    #[kani::proof]
    #[kani::unwind(10)]
    #[kani::stub(std::fmt::format, crate::drive::no_fmt)]
    pub fn step_twin_must_fail() {
        let _ = run::<2>(false);
        assert!(false, "twin: reachable end of harness");
    }
}
