//! E4 — the LR runtime *re-hosted*: the real source files of the runtime crate
//! (context.rs, parser.rs, builder.rs, lexer.rs, lr/builder.rs, lr/context.rs, lr/parser.rs)
//! are copied byte for byte from /repo on every run and compiled here, under the same
//! module paths, with one change of environment: in lexer.rs and lr/parser.rs the name
//! `Vec` / `vec!` resolves to the heap-free fixed-capacity stand-in (avec.rs), and `log!`
//! expands to nothing; Position/SourceSpan/Input are slim offset-only stand-ins (same names),
//! Error/ParseError come from the real crate.
//! The parser is driven by the real tables the real compiler computed for a grammar
//! corpus (dump hook), with a symbolic token string. See DESIGN.md §3 (E4).
#![allow(dead_code, unused_imports, unused_variables, unused_mut, unused_macros, unreachable_code)]
#![allow(clippy::all)]

// textual-scope macro shadows (must precede the modules that include the real sources)
macro_rules! log { ($($t:tt)*) => {}; }
macro_rules! logn { ($($t:tt)*) => {}; }
macro_rules! vec {
    () => { $crate::avec::AVec::new() };
    ($($x:expr),+ $(,)?) => {{ let mut v = $crate::avec::AVec::new(); $( v.push($x); )+ v }};
}

#[path = "/verif/kani/e2/src/avec.rs"]
pub mod avec;

pub use rustemo::{err, LOG, LOG_BOLD, WARN, WARN_BOLD};

/// Names injected (by glob import) into the modules whose `Vec` is shadowed.
pub mod shadow {
    pub type Vec<T> = crate::avec::AVec<T, 8>;
    pub use rustemo::yansi;
}
/// Names injected into modules that keep the real `Vec`.
pub mod noshadow {
    pub use rustemo::yansi;
}

/// Slim stand-ins for `position.rs` / `input.rs`: offsets only (no line/column - the
/// line/column law is decided on the real `str` implementation in E1). Same type, field
/// and method names as the real ones, so the re-hosted sources compile unchanged.
pub mod position {
    #[derive(PartialEq, PartialOrd, Ord, Eq, Copy, Clone, Default, Debug)]
    pub struct Position {
        pub pos: usize,
    }
    impl From<usize> for Position {
        fn from(pos: usize) -> Self {
            Self { pos }
        }
    }
    #[derive(PartialEq, Eq, Clone, Copy, Default, Debug)]
    pub struct SourceSpan {
        pub start: Position,
        pub end: Position,
    }
    impl From<Position> for SourceSpan {
        fn from(start: Position) -> Self {
            Self { start, end: start }
        }
    }
    impl From<SourceSpan> for Position {
        fn from(span: SourceSpan) -> Self {
            span.start
        }
    }
    impl From<SourceSpan> for std::ops::Range<usize> {
        fn from(span: SourceSpan) -> Self {
            span.start.pos..span.end.pos
        }
    }
}
pub use position::Position;
pub mod input {
    use crate::position::{Position, SourceSpan};
    use std::ops::{Index, Range};
    pub trait Input: ToOwned + Index<Range<usize>, Output = Self> {
        fn len(&self) -> usize;
        fn is_empty(&self) -> bool {
            self.len() == 0
        }
        fn slice(&self, range: Range<usize>) -> &<Self as Index<Range<usize>>>::Output {
            &self[range]
        }
        fn context_str(&self, _position: Position) -> String {
            String::new()
        }
        fn read_file<P: AsRef<std::path::Path>>(_path: P) -> crate::error::Result<Self::Owned> {
            unimplemented!()
        }
        fn try_to_string(&self) -> Option<String> {
            None
        }
        fn start_position() -> Position {
            Position { pos: 0 }
        }
        fn position_after(&self, position: Position) -> Position;
        fn span_from(&self, position: Position) -> SourceSpan {
            SourceSpan { start: position, end: self.position_after(position) }
        }
    }
    impl Input for [u8] {
        fn len(&self) -> usize {
            <[u8]>::len(self)
        }
        fn position_after(&self, position: Position) -> Position {
            Position { pos: position.pos + <[u8]>::len(self) }
        }
    }
    impl Input for str {
        fn len(&self) -> usize {
            str::len(self)
        }
        fn position_after(&self, position: Position) -> Position {
            Position { pos: position.pos + str::len(self) }
        }
    }
}
pub mod error {
    pub use rustemo::{Error, ParseError, Result};
    use crate::{context::Context, input::Input, parser::State};
    /// Stand-in for `error::error_expected` (the real one is decided in E1 / C12): the
    /// error carries the zero-width span at the context's position; no message is built.
    pub(crate) fn error_expected<'i, I, S, TK, C>(_input: &'i I, _file_name: &str, context: &C, _expected: &[TK]) -> Error
    where
        C: Context<'i, I, S, TK>,
        I: Input + ?Sized,
        S: State,
        TK: std::fmt::Debug,
    {
        let p = rustemo::Position::from(context.position().pos);
        Error::ParseError(Box::new(ParseError { message: String::new(), file: None, src: None, span: Some(p.into()) }))
    }
}
pub mod context {
    use crate::noshadow::*;
    include!("../gen/rt/context.rs");
}
pub mod parser {
    include!("../gen/rt/parser.rs");
}
pub mod builder {
    include!("../gen/rt/builder.rs");
}
pub mod lexer {
    use crate::shadow::*;
    include!("../gen/rt/lexer.rs");
}
pub mod lr {
    pub mod builder {
        use crate::noshadow::*;
        // keeps the real Vec: TreeNode is recursive through Vec<TreeNode>
        macro_rules! vec { ($($t:tt)*) => { std::vec![$($t)*] }; }
        include!("../gen/rt/lr_builder.rs");
    }
    pub mod context {
        include!("../gen/rt/lr_context.rs");
    }
    pub mod parser {
        use crate::shadow::*;
        include!("../gen/rt/lr_parser.rs");
        include!("lr_run.rs");
    }
}

pub mod drive;
pub mod tables {
    include!("../gen/tables.rs");
}
#[cfg(kani)]
pub mod proofs {
    include!("../gen/harnesses.rs");
}
