// Included at the end of the re-hosted `lr::parser` module (private items in scope).
//
// The real code of `LRParser::parse_with_context` from `let mut state = parse_stack.state();`
// to the end of its `loop` (sliced byte for byte into gen/lr_from_state.rs) is run from an
// ARBITRARY valid parse stack/context: the first lookahead is fetched by the real
// `next_token`, ONE iteration of the loop runs with a symbolic table answer, and a second
// table answer `Accept` ends the loop. Compared with the textbook LR step. Decides, on the
// real source (including the code before the loop and every loop-carried local):
//   C02  Reduce(prod,len) pops len states and takes the GOTO of the production's non-terminal
//   C13  the span pushed on shift / reduce (first child start .. last child end; empty rule)
//   C14  the layout found before the lookahead survives re-lexing after a reduction
//   C15  an empty action cell (custom lexer returning an unexpected kind) is an Err, not a panic
#[cfg(kani)]
pub mod step {
    use super::*;
    use crate::builder::Builder;
    use crate::lr::builder::LRBuilder;
    use crate::lr::context::LRContext;
    use crate::position::Position;
    use std::cell::Cell;

    #[derive(Clone, Copy, PartialEq, Eq, Default, Debug)]
    pub struct St(pub u8);
    impl State for St {
        fn default_layout() -> Option<Self> {
            None
        }
    }
    #[derive(Clone, Copy, PartialEq, Eq, Default, Debug)]
    pub struct Tk(pub u8);
    #[derive(Clone, Copy, PartialEq, Eq, Debug)]
    pub struct Pk(pub u8);
    #[derive(Clone, Copy, PartialEq, Eq, Debug)]
    pub struct Ntk(pub u8);
    impl From<Pk> for Ntk {
        fn from(p: Pk) -> Ntk {
            Ntk(p.0 ^ 0x55)
        }
    }
    type Ctx<'i> = LRContext<'i, [u8], St, Tk>;

    /// Symbolic table: first lookup = the symbolic answer, second lookup = Accept; records
    /// what it was asked.
    pub struct SymDef {
        pub n_actions: usize,
        pub action: Action<St, Pk>,
        pub goto_to: St,
        pub lookups: Cell<usize>,
        pub asked1: Cell<Option<(St, Tk)>>,
        pub asked2: Cell<Option<(St, Tk)>>,
        pub asked_goto: Cell<Option<(St, Ntk)>>,
    }
    impl ParserDefinition<St, Pk, Tk, Ntk> for SymDef {
        fn actions(&self, state: St, token: Tk) -> Vec<Action<St, Pk>> {
            let n = self.lookups.get();
            self.lookups.set(n + 1);
            let mut v = Vec::new();
            if n == 0 {
                self.asked1.set(Some((state, token)));
                if self.n_actions >= 1 {
                    v.push(self.action);
                }
                if self.n_actions >= 2 {
                    v.push(Action::Accept);
                }
            } else {
                self.asked2.set(Some((state, token)));
                v.push(Action::Accept);
            }
            v
        }
        fn goto(&self, state: St, nonterm: Ntk) -> St {
            self.asked_goto.set(Some((state, nonterm)));
            self.goto_to
        }
        fn expected_token_kinds(&self, _state: St) -> Vec<(Tk, bool)> {
            let mut v = Vec::new();
            v.push((Tk(1), false));
            v
        }
        fn longest_match() -> bool {
            false
        }
        fn grammar_order() -> bool {
            true
        }
    }

    /// Lexer stand-in: call 1 finds the first lookahead, call 2 the next one; like a
    /// whitespace-skipping lexer it skips `skip` bytes and sets / clears the layout.
    pub struct SymLexer {
        pub calls: Cell<usize>,
        pub found: [bool; 2],
        pub kind: [Tk; 2],
        pub len: [usize; 2],
        pub skip: [usize; 2],
        /// false = a lexer that never touches the layout (Layout-rule mode: `skip_ws` off; the
        /// layout is only ever set by the layout parser) and skips nothing
        pub sets_layout: bool,
    }
    pub struct One<'i>(Option<Token<'i, [u8], Tk>>);
    impl<'i> Iterator for One<'i> {
        type Item = Token<'i, [u8], Tk>;
        fn next(&mut self) -> Option<Self::Item> {
            self.0.take()
        }
    }
    impl<'i> Lexer<'i, Ctx<'i>, St, Tk> for SymLexer {
        type Input = [u8];
        fn next_tokens(&self, context: &mut Ctx<'i>, input: &'i [u8], _expected: Vec<(Tk, bool)>) -> Box<dyn Iterator<Item = Token<'i, [u8], Tk>> + 'i> {
            let n = self.calls.get();
            self.calls.set(n + 1);
            let c = if n == 0 { 0 } else { 1 };
            let p0 = context.position();
            if self.sets_layout {
                if self.skip[c] > 0 {
                    context.set_layout_ahead(Some(&input[p0.pos..p0.pos + self.skip[c]]));
                    context.set_position(Position { pos: p0.pos + self.skip[c] });
                } else {
                    context.set_layout_ahead(None);
                }
            }
            let p = context.position();
            Box::new(One(if self.found[c] {
                let value = &input[p.pos..p.pos + self.len[c]];
                Some(Token { kind: self.kind[c], value, span: value.span_from(p) })
            } else {
                None
            }))
        }
    }

    #[derive(Clone, Copy, PartialEq, Eq)]
    pub enum Call {
        None,
        Shift { kind: Tk, start: usize, end: usize, ctx_span: (usize, usize), layout: Option<(usize, usize)> },
        Reduce { prod: Pk, len: usize, ctx_span: (usize, usize), layout: Option<(usize, usize)> },
    }
    pub struct Rec {
        pub calls: usize,
        pub last: Call,
    }
    impl Builder for Rec {
        type Output = usize;
        fn get_result(&mut self) -> usize {
            self.calls
        }
    }
    fn lay(l: Option<&[u8]>) -> Option<(usize, usize)> {
        l.map(|s| (s.as_ptr() as usize, s.len()))
    }
    impl<'i> LRBuilder<'i, [u8], Ctx<'i>, St, Pk, Tk> for Rec {
        fn shift_action(&mut self, context: &Ctx<'i>, token: Token<'i, [u8], Tk>) {
            self.calls += 1;
            let s = context.span();
            self.last = Call::Shift { kind: token.kind, start: token.span.start.pos, end: token.span.end.pos, ctx_span: (s.start.pos, s.end.pos), layout: lay(context.layout_ahead()) };
        }
        fn reduce_action(&mut self, context: &Ctx<'i>, prod: Pk, prod_len: usize) {
            self.calls += 1;
            let s = context.span();
            self.last = Call::Reduce { prod, len: prod_len, ctx_span: (s.start.pos, s.end.pos), layout: lay(context.layout_ahead()) };
        }
    }

    type Prs<'i> = LRParser<'i, Ctx<'i>, St, Pk, Tk, Ntk, SymDef, SymLexer, Rec, [u8]>;
    // the generic parameter names of the real impl block, should the sliced code mention them
    #[allow(dead_code)]
    type I = [u8];
    #[allow(dead_code)]
    type S = St;
    #[allow(dead_code)]
    type P = Pk;
    #[allow(dead_code)]
    type TK = Tk;
    #[allow(dead_code)]
    type NTK = Ntk;
    #[allow(dead_code)]
    type D = SymDef;
    #[allow(dead_code)]
    type L = SymLexer;
    #[allow(dead_code)]
    type B = Rec;

    impl<'i> Prs<'i> {
        /// `parse_with_context` from after the creation of the parse stack.
        fn verif_run(&self, input: &'i [u8], context: &mut Ctx<'i>, parse_stack: &mut ParseStack<St, [u8], Ctx<'i>, Tk>) -> Result<usize> {
            let mut builder = self.builder.borrow_mut();
            let layout_parser: LayoutParser<'i, Ctx<'i>, St, Pk, Tk, Ntk, SymDef, SymLexer, [u8]> = None;
            include!("../gen/lr_from_state.rs");
            Ok(builder.get_result())
        }
    }

    const INPUT: &[u8] = b"0123456789abcdef0123456789abcdef0123456789abcdef";

    pub struct Facts {
        pub which: u8,
        pub ok: bool,
        pub rlen: usize,
        pub tl: usize,
        pub nonempty_last: bool,
        pub layout: bool,
        pub passive_lexer: bool,
    }

    /// K = number of items on the parse stack before the step.
    fn run<const K: usize>(empty_cell: bool) -> Facts {
        // ---- arbitrary valid state -------------------------------------------------------
        let mut bounds = [0usize; 10];
        let mut i = 0;
        let mut prev = 0usize;
        while i < 2 * K {
            let d: usize = kani::any();
            kani::assume(d <= 2);
            bounds[i] = prev + d;
            prev = bounds[i];
            i += 1;
        }
        let mut stack: Vec<StackItem<St>> = Vec::new();
        let mut states = [St(0); 5];
        let mut i = 0;
        while i < K {
            states[i] = St(kani::any());
            stack.push(StackItem { state: states[i], span: SourceSpan { start: Position { pos: bounds[2 * i] }, end: Position { pos: bounds[2 * i + 1] } } });
            i += 1;
        }
        let mut parse_stack: ParseStack<St, [u8], Ctx, Tk> = ParseStack { stack, phantom: PhantomData };
        // context: span of the last shifted token, position right after it
        let cs_a: usize = kani::any();
        let cs_b: usize = kani::any();
        kani::assume(cs_a <= cs_b && cs_b >= prev && cs_b <= prev + 2);
        let mut context: Ctx = LRContext::new(Position { pos: cs_b });
        context.set_span(SourceSpan { start: Position { pos: cs_a }, end: Position { pos: cs_b } });
        context.set_state(states[K - 1]);
        // a stale layout from an earlier step
        if kani::any() {
            context.set_layout_ahead(Some(&INPUT[0..0]));
        }
        // lexer: first lookahead after `skip0` bytes of layout, second after `skip1`
        let skip0: usize = kani::any();
        let skip1: usize = kani::any();
        let tl: usize = kani::any();
        let nl_len: usize = kani::any();
        kani::assume(skip0 <= 2 && skip1 <= 2 && tl <= 2 && nl_len <= 1);
        let tk = Tk(kani::any());
        let tk2 = Tk(kani::any());
        let found0: bool = kani::any();
        let nl_found: bool = kani::any();
        let sets_layout: bool = kani::any();
        if !sets_layout {
            kani::assume(skip0 == 0 && skip1 == 0);
        }
        let lexer = SymLexer { calls: Cell::new(0), found: [found0, nl_found], kind: [tk, tk2], len: [tl, nl_len], skip: [skip0, skip1], sets_layout };
        let p = cs_b + skip0; // start of the first lookahead
        let layout0: Option<&[u8]> = if skip0 > 0 { Some(&INPUT[cs_b..p]) } else { None };

        // ---- symbolic table answer ---------------------------------------------------------
        let which: u8 = kani::any();
        kani::assume(which < 4);
        let tgt = St(kani::any());
        let prod = Pk(kani::any());
        let rlen: usize = kani::any();
        kani::assume(rlen < K);
        let action = match which {
            0 => Action::Shift(tgt),
            1 => Action::Reduce(prod, rlen),
            2 => Action::Accept,
            _ => Action::Error,
        };
        let n_actions: usize = if empty_cell { 0 } else if kani::any() { 1 } else { 2 };
        let goto_to = St(kani::any());
        let def: &'static SymDef = Box::leak(Box::new(SymDef { n_actions, action, goto_to, lookups: Cell::new(0), asked1: Cell::new(None), asked2: Cell::new(None), asked_goto: Cell::new(None) }));
        // partial parsing on or off: with the lexer finding what it finds, it must make no
        // difference to a step (the synthetic STOP exists only in next_token, when nothing is
        // found and STOP is expected - SymDef never expects STOP)
        let partial: bool = kani::any();
        let parser: Prs = LRParser::new(def, St(0), partial, false, lexer, Rec { calls: 0, last: Call::None });

        // ---- the real code: first lookahead, one symbolic iteration, Accept --------------------
        let r = parser.verif_run(INPUT, &mut context, &mut parse_stack);

        // ---- the textbook step ------------------------------------------------------------
        let b = parser.builder.borrow();
        let st = &parse_stack.stack;
        if !found0 {
            assert!(r.is_err(), "C12 no lookahead at the start is an error");
            assert!(def.lookups.get() == 0 && st.len() == K && b.calls == 0);
            assert!(context.position().pos == p, "C12 the error position is after the skipped layout");
        } else {
            assert!(def.asked1.get() == Some((states[K - 1], tk)), "C02 the action is looked up for (top state, lookahead kind)");
            if n_actions == 0 {
                assert!(r.is_err(), "C15 an empty action cell surfaces as an error result");
                assert!(st.len() == K && b.calls == 0);
            } else {
                match which {
                    0 => {
                        // Shift
                        assert!(st.len() == K + 1, "C02 shift pushes one state");
                        assert!(st[K].state == tgt, "C02 shift enters the target state");
                        assert!(st[K].span.start.pos == p && st[K].span.end.pos == p + tl, "C13 shifted span = [position, position after the token]");
                        assert!(b.calls == 1, "C02 one builder call per step");
                        assert!(b.last == Call::Shift { kind: tk, start: p, end: p + tl, ctx_span: (p, p + tl), layout: lay(layout0) }, "C02/C14 shift_action gets the token, its span and the layout before it");
                        if nl_found {
                            assert!(r.is_ok(), "the second table answer accepts");
                            assert!(def.asked2.get() == Some((tgt, tk2)), "C02 after a shift the parser is in the target state with the next lookahead");
                            assert!(context.position().pos == p + tl + skip1, "C13 position advances by the token (and the layout skipped after it)");
                            assert!(context.span().start.pos == p && context.span().end.pos == p + tl, "C13 context span = span of the shifted token");
                            if skip1 == 0 {
                                assert!(context.layout_ahead().is_none(), "C14 a token that directly follows the previous one has no layout before it (no stale layout)");
                            }
                        } else {
                            assert!(r.is_err(), "C12 no lookahead after the shift is an error");
                        }
                    }
                    1 => {
                        // Reduce
                        let keep = K - rlen;
                        assert!(def.asked_goto.get() == Some((states[keep - 1], Ntk::from(prod))), "C02 GOTO is taken from the state below the popped ones, on the production's non-terminal");
                        assert!(st.len() == keep + 1, "C02 reduce pops prod_len states and pushes one");
                        assert!(st[keep].state == goto_to, "C02 reduce enters the GOTO state");
                        let sp = st[keep].span;
                        if rlen > 0 {
                            assert!(sp.start.pos == bounds[2 * keep], "C13 reduced span starts at the first child");
                            assert!(sp.end.pos == bounds[2 * K - 1], "C13 reduced span ends at the last child");
                        } else {
                            assert!(sp.start.pos == sp.end.pos, "C13 empty non-terminal has a zero-width span");
                            assert!(sp.start.pos >= cs_b && sp.start.pos <= p, "C13 empty span lies between the end of the preceding token and the start of the next");
                        }
                        assert!(b.calls == 1, "C02 one builder call per step");
                        assert!(b.last == Call::Reduce { prod, len: rlen, ctx_span: (sp.start.pos, sp.end.pos), layout: lay(layout0) }, "C02/C13 reduce_action sees the production, its length and the reduced span");
                        let mut i = 0;
                        while i < keep {
                            assert!(st[i].state == states[i] && st[i].span.start.pos == bounds[2 * i] && st[i].span.end.pos == bounds[2 * i + 1], "C02 states below the reduction are untouched");
                            i += 1;
                        }
                        if nl_found {
                            assert!(r.is_ok(), "the second table answer accepts");
                            assert!(def.asked2.get().map(|a| a.0) == Some(goto_to), "C02 after a reduction the parser is in the GOTO state");
                            assert!(context.span().start.pos == cs_a && context.span().end.pos == cs_b, "C13 the context span of the last token is restored after a reduction");
                            assert!(lay(context.layout_ahead()) == lay(layout0), "C14 the layout before the lookahead survives re-lexing after a reduction");
                            assert!(context.position().pos == p + skip1, "C02/C13 the position reached by re-lexing after a reduction (layout skipped before the lookahead) is kept: the next shift starts at the lookahead");
                        } else {
                            assert!(r.is_err(), "C12 no lookahead after the reduction is an error");
                        }
                    }
                    2 => {
                        assert!(r.is_ok(), "Accept leaves the loop");
                        assert!(st.len() == K && b.calls == 0 && def.lookups.get() == 1);
                    }
                    _ => {
                        assert!(r.is_err(), "C15 Action::Error surfaces as an error result");
                        assert!(st.len() == K && b.calls == 0);
                    }
                }
            }
        }
        drop(b);
        let facts = Facts { which, ok: r.is_ok() && found0, rlen, tl, nonempty_last: cs_a < cs_b, layout: skip0 > 0, passive_lexer: !sets_layout };
        std::mem::forget(r);
        std::mem::forget(parser);
        facts
    }

    macro_rules! step {
        ($name:ident, $k:tt, $empty:tt) => {
            #[kani::proof]
            #[kani::unwind(10)]
            #[kani::stub(std::fmt::format, crate::drive::no_fmt)]
            pub fn $name() {
                let f = run::<$k>($empty);
                step_cov!($empty, $k, f);
            }
        };
    }
    macro_rules! step_cov {
        (true, $k:tt, $f:ident) => {
            kani::cover!(!$f.ok, "empty action cell reached");
        };
        (false, $k:tt, $f:ident) => {
            kani::cover!($f.ok && $f.which == 0 && $f.tl == 2, "shift of a two-byte token");
            kani::cover!($f.ok && $f.which == 1 && $f.rlen == 0 && $f.nonempty_last && $f.layout, "empty reduction after a non-empty token, layout before the lookahead");
            kani::cover!($f.ok && $f.which == 1 && $f.rlen + 1 == $k && $f.layout, "reduction of everything above the bottom state, layout before the lookahead");
            kani::cover!($f.ok && $f.which == 2, "accept");
            kani::cover!($f.ok && $f.which == 0 && $f.passive_lexer, "shift with a lexer that never touches the layout (Layout-rule mode)");
        };
    }
    step!(step_1, 1, false);
    step!(step_2, 2, false);
    step!(step_3, 3, false);
    step!(step_4, 4, false);
    step!(step_2_empty_cell, 2, true);

    /// C02 (partial parsing) / C12: the real `LRParser::next_token`. A token found by the lexer
    /// is returned unchanged whatever `partial_parse` is; the synthetic STOP appears only if
    /// no expected token matches AND STOP is expected AND partial parsing is on - so enabling
    /// partial parsing never changes what an accepting parse sees; otherwise the result is the
    /// "expected .." error at the (post-layout) position.
    pub struct ExpDef {
        pub expected: [Tk; 2],
    }
    impl ParserDefinition<St, Pk, Tk, Ntk> for ExpDef {
        fn actions(&self, _state: St, _token: Tk) -> Vec<Action<St, Pk>> {
            Vec::new()
        }
        fn goto(&self, state: St, _nonterm: Ntk) -> St {
            state
        }
        fn expected_token_kinds(&self, _state: St) -> Vec<(Tk, bool)> {
            let mut v = Vec::new();
            v.push((self.expected[0], false));
            v.push((self.expected[1], false));
            v
        }
        fn longest_match() -> bool {
            false
        }
        fn grammar_order() -> bool {
            true
        }
    }
    /// finds a token of the first expected kind, or nothing
    pub struct FirstExpLexer {
        pub found: bool,
        pub len: usize,
        pub skip: usize,
    }
    impl<'i> Lexer<'i, Ctx<'i>, St, Tk> for FirstExpLexer {
        type Input = [u8];
        fn next_tokens(&self, context: &mut Ctx<'i>, input: &'i [u8], expected: Vec<(Tk, bool)>) -> Box<dyn Iterator<Item = Token<'i, [u8], Tk>> + 'i> {
            let p0 = context.position();
            context.set_position(Position { pos: p0.pos + self.skip });
            let p = context.position();
            Box::new(One(if self.found {
                let value = &input[p.pos..p.pos + self.len];
                Some(Token { kind: expected[0].0, value, span: value.span_from(p) })
            } else {
                None
            }))
        }
    }
    #[kani::proof]
    #[kani::unwind(6)]
    #[kani::stub(std::fmt::format, crate::drive::no_fmt)]
    pub fn next_token_partial() {
        let e0 = Tk(kani::any());
        let e1 = Tk(kani::any());
        let def: &'static ExpDef = Box::leak(Box::new(ExpDef { expected: [e0, e1] }));
        let found: bool = kani::any();
        let len: usize = kani::any();
        let skip: usize = kani::any();
        let pos: usize = kani::any();
        kani::assume(len <= 2 && skip <= 2 && pos <= 4);
        let partial: bool = kani::any();
        let parser: LRParser<Ctx, St, Pk, Tk, Ntk, ExpDef, FirstExpLexer, Rec, [u8]> =
            LRParser::new(def, St(0), partial, false, FirstExpLexer { found, len, skip }, Rec { calls: 0, last: Call::None });
        let mut context: Ctx = LRContext::new(Position { pos });
        let cs = SourceSpan { start: Position { pos: 0 }, end: Position { pos } };
        context.set_span(cs);
        let r = parser.next_token(INPUT, &mut context, &None);
        let stop_expected = e0 == Tk(0) || e1 == Tk(0);
        match &r {
            Ok(t) => {
                if found {
                    assert!(t.kind == e0 && t.value.len() == len, "C02 a token found by the lexer is returned unchanged, whatever partial_parse is");
                    assert!(t.span.start.pos == pos + skip && t.span.end.pos == pos + skip + len, "C13 the token span is where the lexer found it");
                } else {
                    assert!(partial && stop_expected, "C02 a synthetic STOP appears only with partial parsing on and STOP expected");
                    assert!(t.kind == Tk(0) && t.value.is_empty(), "C02 the synthetic token is an empty STOP");
                }
            }
            Err(e) => {
                assert!(!found && !(partial && stop_expected), "C12 an error only if nothing matches and partial parsing cannot stop here");
                match e {
                    rustemo::Error::ParseError(pe) => {
                        assert!(pe.span.map(|s| s.start.pos) == Some(pos + skip), "C12 the error is at the position after the skipped layout");
                    }
                    _ => assert!(false),
                }
            }
        }
        kani::cover!(r.is_ok() && !found, "synthetic STOP");
        kani::cover!(r.is_err() && partial, "partial parsing on, STOP not expected: error");
        kani::cover!(r.is_ok() && found && partial, "found token with partial parsing on");
        std::mem::forget(r);
        std::mem::forget(parser);
    }

    #[kani::proof]
    #[kani::unwind(10)]
    #[kani::stub(std::fmt::format, crate::drive::no_fmt)]
    pub fn step_twin_must_fail() {
        let _ = run::<2>(false);
        assert!(false, "twin: reachable end of harness");
    }
}
