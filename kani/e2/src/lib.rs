//! E2 — source-slice harnesses. Every `include!("../gen/<name>.rs")` is a region of
//! /repo copied byte for byte by /verif/vlib/slicer.py on every run; the types around it
//! are stand-ins exposing exactly the names the slice mentions. See DESIGN.md §3 (E2).
#![allow(dead_code, unused_imports, unused_variables, unused_mut, unused_macros, unreachable_code)]
#![allow(clippy::all)]

pub mod avec;
pub mod bitset;
pub mod resolve;
pub mod sortlex;
pub mod metainherit;
pub mod tokvals;
pub mod tablekern;
pub mod glrspan;
pub mod groupsym;
// closure.rs (LRState::closure slice on a concrete grammar with symbolic kernel lookaheads) is
// kept in the tree but not compiled: symbolic execution did not finish in 15 minutes; see
// DESIGN.md §2.
// forestdec.rs (C03 index decoding on the sliced gss.rs types) is kept in the tree but not
// compiled: no template finishes within 15 minutes (recursive solutions() over symbolic
// node pointers); see DESIGN.md §2.

/// `std::env::var_os` stub: the dev-profile `log!` macro of the runtime consults
/// `RUSTEMO_TRACE` on every call; tracing is not a subject of any property.
pub fn no_env<K: AsRef<std::ffi::OsStr>>(_k: K) -> Option<std::ffi::OsString> {
    None
}
/// `std::fmt::format` stub for harnesses where a message is built but not inspected.
pub fn no_fmt(_a: std::fmt::Arguments<'_>) -> String {
    String::new()
}
