//! E2 — source-slice harnesses. Every `include!("../gen/<name>.rs")` is a region of
//! /repo copied byte for byte by /verif/vlib/slicer.py on every run; the types around it
//! are stand-ins exposing exactly the names the slice mentions. See DESIGN.md §3 (E2).
#![allow(dead_code, unused_imports, unused_variables, unused_mut, unused_macros, unreachable_code)]
#![allow(clippy::all)]

pub mod avec;
pub mod bitset;
pub mod resolve;
