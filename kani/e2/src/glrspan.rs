//! C13 (GLR): the span given to a new solution in `GlrParser::reducer`, the statement
//! `let span = if path.parents.is_empty() { .. } else { .. };` sliced verbatim.
use std::cell::RefCell;
use std::marker::PhantomData;

type Vec<T> = crate::avec::AVec<T, 4>;

#[derive(Clone, Copy, PartialEq, Eq, PartialOrd, Ord, Debug, Default)]
pub struct Position {
    pub pos: usize,
}
#[derive(Clone, Copy, PartialEq, Eq, Debug, Default)]
pub struct SourceSpan {
    pub start: Position,
    pub end: Position,
}
/// `Context` as far as the slice can mention it.
pub trait Context<'i, I: ?Sized, S, TK> {
    fn span(&self) -> SourceSpan;
    fn position(&self) -> Position;
    fn layout_ahead(&self) -> Option<&'i I>;
}
pub struct SPPFTree<'i, I: ?Sized, P, TK> {
    pub span: SourceSpan,
    pub ph: PhantomData<(&'i I, P, TK)>,
}
impl<'i, I: ?Sized, S, P, TK> Context<'i, I, S, TK> for SPPFTree<'i, I, P, TK> {
    fn span(&self) -> SourceSpan {
        self.span
    }
    fn position(&self) -> Position {
        panic!("position() called on SPPFTree")
    }
    fn layout_ahead(&self) -> Option<&'i I> {
        None
    }
}
pub struct Parent<'i, I: ?Sized, P, TK> {
    pub possibilities: RefCell<Vec<SPPFTree<'i, I, P, TK>>>,
}
pub struct ReductionPath<'i, I: ?Sized, P, TK> {
    pub parents: Vec<Parent<'i, I, P, TK>>,
}
/// `GssHead` as far as the slice can mention it (inherent methods, as on the real type
/// through its `Context` impl).
pub struct GssHead<'i, I: ?Sized> {
    pub position: Position,
    pub span: SourceSpan,
    pub layout: Option<&'i I>,
}
impl<'i, I: ?Sized> GssHead<'i, I> {
    pub fn span(&self) -> SourceSpan {
        self.span
    }
    pub fn position(&self) -> Position {
        self.position
    }
    pub fn layout_ahead(&self) -> Option<&'i I> {
        self.layout
    }
}

pub fn solution_span<'i, I: ?Sized, S, P, TK>(path: &ReductionPath<'i, I, P, TK>, root_head: &GssHead<'i, I>) -> SourceSpan {
    include!("../gen/glr_span.rs")
}

#[cfg(kani)]
pub mod proofs {
    use super::*;

    fn tree(a: usize, b: usize) -> SPPFTree<'static, str, u8, u8> {
        SPPFTree { span: SourceSpan { start: Position { pos: a }, end: Position { pos: b } }, ph: PhantomData }
    }

    /// K = number of children on the reduction path (0 = empty reduction).
    fn run<const K: usize>() -> (usize, usize) {
        // children spans: ordered, possibly with layout gaps between them
        let mut b = [0usize; 8];
        let mut prev: usize = kani::any();
        kani::assume(prev <= 3);
        let mut i = 0;
        while i < 2 * K {
            let d: usize = kani::any();
            kani::assume(d <= 2);
            b[i] = prev + d;
            prev = b[i];
            i += 1;
        }
        let mut parents = Vec::new();
        let mut i = 0;
        while i < K {
            let mut poss = Vec::new();
            poss.push(tree(b[2 * i], b[2 * i + 1]));
            if kani::any() {
                // a second, ambiguous possibility over the same input range
                poss.push(tree(b[2 * i], b[2 * i + 1]));
            }
            parents.push(Parent { possibilities: RefCell::new(poss) });
            i += 1;
        }
        let path = ReductionPath { parents };
        // root head: span of the token shifted last before the reduced range, lookahead
        // position after optional layout
        let hs: usize = kani::any();
        let he: usize = kani::any();
        let skipped: usize = kani::any();
        kani::assume(hs <= he && he <= 100 && skipped <= 2);
        if K > 0 {
            kani::assume(he <= b[0]);
        }
        // the root head's position is the start of the next *token* (after layout); a first
        // child that is an empty non-terminal starts before it (at the end of the root span)
        let ahead: usize = kani::any();
        kani::assume(ahead <= 2);
        let root_head: GssHead<'static, str> = GssHead { position: Position { pos: if K > 0 { b[0] + ahead } else { he + skipped } }, span: SourceSpan { start: Position { pos: hs }, end: Position { pos: he } }, layout: None };
        let sp = solution_span::<str, u8, u8, u8>(&path, &root_head);
        if K > 0 {
            assert!(sp.start.pos == b[0], "C13 a non-terminal's span starts at the start of its first child");
            assert!(sp.end.pos == b[2 * K - 1], "C13 a non-terminal's span ends at the end of its last child");
        } else {
            assert!(sp.start.pos == sp.end.pos, "C13 an empty non-terminal has a zero-width span");
            assert!(sp.start.pos >= he && sp.start.pos <= he + skipped, "C13 the empty span lies between the end of the preceding token and the start of the next");
        }
        (b[0], he)
    }

    macro_rules! span_h {
        ($name:ident, $k:tt) => {
            #[kani::proof]
            #[kani::unwind(8)]
            pub fn $name() {
                let (first, he) = run::<$k>();
                span_cov!($k, first, he);
            }
        };
    }
    macro_rules! span_cov {
        (0, $f:ident, $h:ident) => {
            kani::cover!($h > 0, "empty reduction after a token");
        };
        ($k:tt, $f:ident, $h:ident) => {
            kani::cover!($f > $h, "layout between the preceding token and the first child");
        };
    }
    span_h!(glr_span_0, 0);
    span_h!(glr_span_1, 1);
    span_h!(glr_span_2, 2);
    span_h!(glr_span_3, 3);

    #[kani::proof]
    #[kani::unwind(8)]
    pub fn glr_span_twin_must_fail() {
        let _ = run::<2>();
        assert!(false, "twin: reachable end of harness");
    }
}
