//! C09: rule -> production meta-data inheritance and field mapping, the block from
//! `// Inherit meta-data from Rule.` to the `nopse` mapping in
//! `GrammarBuilder::extract_productions_and_symbols`, sliced verbatim.
//! The `BTreeMap<String, ConstVal>` of the real code is a 7-slot map keyed by the same
//! literals.

#[derive(Clone, Copy, PartialEq, Eq, Debug)]
pub enum Key {
    // in the iteration order of the real BTreeMap<String, _>: alphabetical
    Kind,
    Left,
    Nops,
    Nopse,
    Priority,
    Right,
    User, // any other key; modelled as sorting last
}
pub const KEYS: [Key; 7] = [Key::Kind, Key::Left, Key::Nops, Key::Nopse, Key::Priority, Key::Right, Key::User];
fn slot(k: Key) -> usize {
    k as usize
}
/// What `.remove("literal")` / `.contains_key(..)` accept.
pub trait AsKey {
    fn key(&self) -> Key;
}
impl AsKey for &str {
    fn key(&self) -> Key {
        match *self {
            "priority" => Key::Priority,
            "left" => Key::Left,
            "right" => Key::Right,
            "nops" => Key::Nops,
            "nopse" => Key::Nopse,
            "kind" => Key::Kind,
            _ => Key::User,
        }
    }
}
impl AsKey for &Key {
    fn key(&self) -> Key {
        **self
    }
}
impl AsKey for Key {
    fn key(&self) -> Key {
        *self
    }
}
impl PartialEq<&str> for Key {
    fn eq(&self, o: &&str) -> bool {
        *self == (*o).key()
    }
}
impl PartialEq<str> for Key {
    fn eq(&self, o: &str) -> bool {
        *self == o.key()
    }
}

#[derive(Clone, Copy, PartialEq, Eq, Debug)]
pub struct IntV(pub u32);
impl From<IntV> for u32 {
    fn from(i: IntV) -> u32 {
        i.0
    }
}
#[derive(Clone, Copy, PartialEq, Eq, Debug)]
pub struct StrV(pub u8);
#[derive(Clone, Copy, PartialEq, Eq, Debug)]
pub struct KindName(pub u8);
impl From<StrV> for KindName {
    fn from(s: StrV) -> KindName {
        KindName(s.0)
    }
}
#[derive(Clone, Copy, PartialEq, Eq, Debug)]
pub enum ConstVal {
    Int(IntV),
    String(StrV),
    Bool(bool),
}

#[derive(Clone, Copy, Debug)]
pub struct Meta {
    pub slots: [Option<ConstVal>; 7],
}
pub struct MetaIter<'a> {
    m: &'a Meta,
    i: usize,
}
impl<'a> Iterator for MetaIter<'a> {
    type Item = (&'a Key, &'a ConstVal);
    fn next(&mut self) -> Option<Self::Item> {
        while self.i < 7 {
            let i = self.i;
            self.i += 1;
            if let Some(v) = &self.m.slots[i] {
                return Some((&KEYS[i], v));
            }
        }
        None
    }
}
impl<'a> IntoIterator for &'a Meta {
    type Item = (&'a Key, &'a ConstVal);
    type IntoIter = MetaIter<'a>;
    fn into_iter(self) -> MetaIter<'a> {
        MetaIter { m: self, i: 0 }
    }
}
impl Meta {
    pub fn contains_key<K: AsKey>(&self, k: K) -> bool {
        self.slots[slot(k.key())].is_some()
    }
    pub fn insert(&mut self, k: Key, v: ConstVal) -> Option<ConstVal> {
        self.slots[slot(k)].replace(v)
    }
    pub fn remove<K: AsKey>(&mut self, k: K) -> Option<ConstVal> {
        self.slots[slot(k.key())].take()
    }
    pub fn get<K: AsKey>(&self, k: K) -> Option<&ConstVal> {
        self.slots[slot(k.key())].as_ref()
    }
    pub fn len(&self) -> usize {
        self.slots.iter().filter(|s| s.is_some()).count()
    }
}

#[derive(Debug, Default, PartialEq, Eq, Clone, Copy)]
pub enum Associativity {
    #[default]
    None,
    Left,
    Right,
}
pub const DEFAULT_PRIORITY: u32 = 10;
pub struct Production {
    pub meta: Meta,
    pub prio: u32,
    pub kind: Option<KindName>,
    pub assoc: Associativity,
    pub nops: bool,
    pub nopse: bool,
}
pub struct Rule {
    pub meta: Meta,
}

pub fn inherit(rule: &Rule, mut new_production: Production) -> Production {
    include!("../gen/meta_inherit.rs");
    new_production
}

#[cfg(kani)]
pub mod proofs {
    use super::*;
    const PRIO: usize = Key::Priority as usize;
    const LEFT: usize = Key::Left as usize;
    const RIGHT: usize = Key::Right as usize;
    const NOPS: usize = Key::Nops as usize;
    const NOPSE: usize = Key::Nopse as usize;
    const KIND: usize = Key::Kind as usize;
    const USER: usize = Key::User as usize;

    fn any_meta() -> Meta {
        let mut m = Meta { slots: [None; 7] };
        if kani::any() {
            let p: u32 = kani::any();
            kani::assume(p <= 1000);
            m.slots[PRIO] = Some(ConstVal::Int(IntV(p)));
        }
        for i in [LEFT, RIGHT, NOPS, NOPSE] {
            if kani::any() {
                m.slots[i] = Some(ConstVal::Bool(true));
            }
        }
        if kani::any() {
            m.slots[KIND] = Some(ConstVal::String(StrV(kani::any())));
        }
        if kani::any() {
            m.slots[USER] = Some(ConstVal::Int(IntV(kani::any())));
        }
        m
    }

    fn prio_of(m: &Meta) -> Option<u32> {
        match m.slots[PRIO] {
            Some(ConstVal::Int(i)) => Some(i.0),
            _ => None,
        }
    }
    fn assoc_of(m: &Meta) -> Option<Associativity> {
        // a grammar cannot write both keywords in one meta block in a meaningful way; the
        // later one applies in the code, so draw at most one per level
        match (m.slots[LEFT].is_some(), m.slots[RIGHT].is_some()) {
            (true, false) => Some(Associativity::Left),
            (false, true) => Some(Associativity::Right),
            _ => None,
        }
    }

    /// `CROSS`: false = everything except a production that gives its own associativity
    /// under a rule that gives the other one (region of finding C09/assoc-override),
    /// true = exactly that region.
    fn run(cross: bool) -> (Option<u32>, Option<u32>, Option<Associativity>, Option<Associativity>, bool) {
        let rule = Rule { meta: any_meta() };
        let pm = any_meta();
        // at most one associativity keyword per level
        kani::assume(!(rule.meta.slots[LEFT].is_some() && rule.meta.slots[RIGHT].is_some()));
        kani::assume(!(pm.slots[LEFT].is_some() && pm.slots[RIGHT].is_some()));
        let is_cross = assoc_of(&pm).is_some() && assoc_of(&rule.meta).is_some() && assoc_of(&pm) != assoc_of(&rule.meta);
        kani::assume(is_cross == cross);
        let p = inherit(&rule, Production { meta: pm, prio: DEFAULT_PRIORITY, kind: None, assoc: Associativity::None, nops: false, nopse: false });
        // every field = production-level datum if given there, else rule-level, else default
        let want_prio = prio_of(&pm).or(prio_of(&rule.meta)).unwrap_or(DEFAULT_PRIORITY);
        assert!(p.prio == want_prio, "C09 priority: production's own, else the rule's, else 10");
        let want_assoc = assoc_of(&pm).or(assoc_of(&rule.meta)).unwrap_or(Associativity::None);
        assert!(p.assoc == want_assoc, "C09 associativity: production's own, else the rule's, else none");
        assert!(p.nops == (pm.slots[NOPS].is_some() || rule.meta.slots[NOPS].is_some()), "C09 nops: production's own or inherited");
        assert!(p.nopse == (pm.slots[NOPSE].is_some() || rule.meta.slots[NOPSE].is_some()), "C09 nopse: production's own or inherited");
        let want_kind = match (pm.slots[KIND], rule.meta.slots[KIND]) {
            (Some(ConstVal::String(s)), _) => Some(KindName(s.0)),
            (None, Some(ConstVal::String(s))) => Some(KindName(s.0)),
            _ => None,
        };
        assert!(p.kind == want_kind, "C09 kind: production's own, else the rule's");
        // user keys stay in the meta map: production's own value, else the rule's
        let want_user = pm.slots[USER].or(rule.meta.slots[USER]);
        assert!(p.meta.slots[USER] == want_user, "C09 user meta-data: production's own, else the rule's");
        // the disambiguation keys are consumed (mapped to fields)
        for i in [PRIO, LEFT, RIGHT, NOPS, NOPSE, KIND] {
            assert!(p.meta.slots[i].is_none(), "C09 mapped keys are removed from the meta map");
        }
        (prio_of(&pm), prio_of(&rule.meta), assoc_of(&pm), assoc_of(&rule.meta), pm.slots[USER].is_some() && rule.meta.slots[USER].is_some())
    }

    #[kani::proof]
    #[kani::unwind(10)]
    pub fn inherit_all() {
        let (pp, rp, pa, ra, user_both) = run(false);
        kani::cover!(pp.is_some() && rp.is_some() && pp != rp, "production priority overrides the rule's");
        kani::cover!(pa.is_none() && ra == Some(Associativity::Right), "associativity inherited");
        kani::cover!(user_both, "user key on both levels");
    }
    #[kani::proof]
    #[kani::unwind(10)]
    pub fn inherit_assoc_cross() {
        let (_, _, pa, _, _) = run(true);
        kani::cover!(pa == Some(Associativity::Left), "production left under a rule right");
        kani::cover!(pa == Some(Associativity::Right), "production right under a rule left");
    }
    #[kani::proof]
    #[kani::unwind(10)]
    pub fn inherit_twin_must_fail() {
        let _ = run(false);
        assert!(false, "twin: reachable end of harness");
    }
}
