//! C01/C04: `LRState::closure` (whole function, sliced verbatim) together with the sliced
//! `firsts`, on a concrete 7-production grammar with nullable non-terminals and shared
//! sub-derivations, from kernels with SYMBOLIC lookahead sets: after closure every item of
//! the state carries exactly the LR(1) lookaheads an independent fixpoint computes.
use std::cell::RefCell;
use std::marker::PhantomData;
use std::ops::Index;

type Vec<T> = crate::avec::AVec<T, 8>;
macro_rules! log { ($($t:tt)*) => {} }

#[derive(Debug, Clone, Copy, PartialEq, Eq, PartialOrd, Ord, Hash, Default)]
pub struct SymbolIndex(pub usize);
#[derive(Debug, Clone, Copy, PartialEq, Eq, PartialOrd, Ord, Hash, Default)]
pub struct ProdIndex(pub usize);
#[derive(Debug, Clone, Copy, PartialEq, Eq, PartialOrd, Ord, Hash, Default)]
pub struct NonTermIndex(pub usize);

pub static SYMS: [SymbolIndex; 8] = [SymbolIndex(0), SymbolIndex(1), SymbolIndex(2), SymbolIndex(3), SymbolIndex(4), SymbolIndex(5), SymbolIndex(6), SymbolIndex(7)];

/// `BTreeSet<SymbolIndex>` (aliases `Follow`, `Firsts`) -> 8-bit bitset, ascending loop-free iteration.
#[derive(Debug, Clone, Copy, PartialEq, Eq, PartialOrd, Ord, Default)]
pub struct BitSet(pub u8);
pub struct BitIter(u8);
impl Iterator for BitIter {
    type Item = &'static SymbolIndex;
    fn next(&mut self) -> Option<Self::Item> {
        if self.0 == 0 {
            None
        } else {
            let i = self.0.trailing_zeros() as usize;
            self.0 &= self.0 - 1;
            Some(&SYMS[i])
        }
    }
}
impl BitSet {
    pub fn new() -> Self {
        BitSet(0)
    }
    pub fn insert(&mut self, x: SymbolIndex) -> bool {
        assert!(x.0 < 8, "BOUND: bitset element");
        let had = self.0 & (1 << x.0) != 0;
        self.0 |= 1 << x.0;
        !had
    }
    pub fn remove(&mut self, x: &SymbolIndex) -> bool {
        let had = self.0 & (1 << x.0) != 0;
        self.0 &= !(1 << x.0);
        had
    }
    pub fn contains(&self, x: &SymbolIndex) -> bool {
        x.0 < 8 && self.0 & (1 << x.0) != 0
    }
    pub fn len(&self) -> usize {
        self.0.count_ones() as usize
    }
    pub fn iter(&self) -> BitIter {
        BitIter(self.0)
    }
}
impl<'a> IntoIterator for &'a BitSet {
    type Item = &'static SymbolIndex;
    type IntoIter = BitIter;
    fn into_iter(self) -> BitIter {
        self.iter()
    }
}
impl<'a> Extend<&'a SymbolIndex> for BitSet {
    fn extend<I: IntoIterator<Item = &'a SymbolIndex>>(&mut self, it: I) {
        for x in it {
            self.insert(*x);
        }
    }
}
pub type Firsts = BitSet;
pub type Follow = BitSet;

/// `BTreeSet<LRItem>` -> ordered duplicate-free fixed-capacity set (by `Ord`, like the real one).
pub struct BTreeSet<T>(pub Vec<T>);
impl<T: Ord> BTreeSet<T> {
    pub fn new() -> Self {
        BTreeSet(Vec::new())
    }
    pub fn insert(&mut self, x: T) -> bool {
        let mut i = 0;
        while i < self.0.len() {
            match self.0[i].cmp(&x) {
                std::cmp::Ordering::Equal => return false,
                std::cmp::Ordering::Greater => break,
                std::cmp::Ordering::Less => {}
            }
            i += 1;
        }
        self.0.insert(i, x);
        true
    }
}
impl<T> IntoIterator for BTreeSet<T> {
    type Item = T;
    type IntoIter = crate::avec::AIntoIter<T, 8>;
    fn into_iter(self) -> Self::IntoIter {
        self.0.into_iter()
    }
}

pub const NSYM: usize = 7;
pub struct SymbolVec<T>(pub [T; NSYM]);
impl<T> Index<SymbolIndex> for SymbolVec<T> {
    type Output = T;
    fn index(&self, i: SymbolIndex) -> &T {
        &self.0[i.0]
    }
}
pub type FirstSets = SymbolVec<Firsts>;
pub struct ProdVec<T>(pub Vec<T>);
impl<T> Index<ProdIndex> for ProdVec<T> {
    type Output = T;
    fn index(&self, i: ProdIndex) -> &T {
        &self.0[i.0]
    }
}
pub struct NonTermVec<T>(pub [T; 4]);
impl<T> Index<NonTermIndex> for NonTermVec<T> {
    type Output = T;
    fn index(&self, i: NonTermIndex) -> &T {
        &self.0[i.0]
    }
}
pub struct Production {
    pub rhs: Vec<SymbolIndex>,
}
pub struct NonTerminal {
    pub productions: Vec<ProdIndex>,
}
pub const NTERM: usize = 3;
pub struct Grammar {
    pub empty_index: SymbolIndex,
    pub productions: ProdVec<Production>,
    pub nonterminals: NonTermVec<NonTerminal>,
}
impl Grammar {
    pub fn is_nonterm(&self, s: SymbolIndex) -> bool {
        s.0 >= NTERM
    }
    pub fn symbol_to_nonterm_index(&self, s: SymbolIndex) -> NonTermIndex {
        NonTermIndex(s.0 - NTERM)
    }
    pub fn production_rhs_symbols(&self, p: ProdIndex) -> Vec<SymbolIndex> {
        self.productions[p].rhs.clone()
    }
    pub fn production_len(&self, p: ProdIndex) -> usize {
        self.productions[p].rhs.len()
    }
}

#[derive(Debug, Eq, Clone, PartialOrd, Ord)]
pub struct LRItem {
    pub prod: ProdIndex,
    pub prod_len: usize,
    pub rn_len: Option<usize>,
    pub position: usize,
    pub follow: RefCell<Follow>,
}
impl PartialEq for LRItem {
    fn eq(&self, other: &Self) -> bool {
        self.prod == other.prod && self.position == other.position
    }
}
impl LRItem {
    pub fn symbol_at_position(&self, grammar: &Grammar) -> Option<SymbolIndex> {
        grammar.productions.0.get(self.prod.0)?.rhs.get(self.position).copied()
    }
}
include!("../gen/lritem_with_follow.rs"); // `impl LRItem { <fn with_follow, verbatim> }`

pub struct ItemVec<T>(pub Vec<T>);
impl<T> ItemVec<T> {
    pub fn iter(&self) -> std::slice::Iter<'_, T> {
        self.0.as_slice().iter()
    }
    pub fn iter_mut(&mut self) -> std::slice::IterMut<'_, T> {
        self.0.as_mut_slice().iter_mut()
    }
    pub fn push(&mut self, x: T) {
        self.0.push(x)
    }
}
impl<'a, T> IntoIterator for &'a ItemVec<T> {
    type Item = &'a T;
    type IntoIter = std::slice::Iter<'a, T>;
    fn into_iter(self) -> Self::IntoIter {
        self.0.as_slice().iter()
    }
}
pub struct LRState<'g> {
    pub grammar: &'g Grammar,
    pub items: ItemVec<LRItem>,
}
include!("../gen/firsts_fn.rs");
include!("../gen/closure_fn.rs"); // `impl<'g> LRState<'g> { <fn closure, verbatim> }`

#[cfg(kani)]
pub mod proofs {
    use super::*;
    // symbols: t0=0 t1=1 t2=2 | EMPTY=3 A=4 B=5 C=6   (non-terminal index = symbol - 3)
    // productions: 0: A: B C   1: A: t0 C   2: B: C   3: B: t1   4: C: (empty)   5: C: t2 B
    const RHS: [&[usize]; 6] = [&[5, 6], &[0, 6], &[6], &[1], &[], &[2, 5]];
    const LHS: [usize; 6] = [4, 4, 5, 5, 6, 6];
    // FIRST sets (bit 3 = EMPTY): t -> {t}; EMPTY -> {EMPTY}; C -> {EMPTY,t2}; B -> {EMPTY,t1,t2}; A -> {EMPTY,t0,t1,t2}
    const FIRST: [u8; NSYM] = [0b0001, 0b0010, 0b0100, 0b1000, 0b1111, 0b1110, 0b1100];

    fn grammar() -> Grammar {
        let mut prods = Vec::new();
        let mut i = 0;
        while i < 6 {
            let mut rhs = Vec::new();
            let mut j = 0;
            while j < RHS[i].len() {
                rhs.push(SymbolIndex(RHS[i][j]));
                j += 1;
            }
            prods.push(Production { rhs });
            i += 1;
        }
        let nt = |ps: &[usize]| {
            let mut v = Vec::new();
            let mut i = 0;
            while i < ps.len() {
                v.push(ProdIndex(ps[i]));
                i += 1;
            }
            NonTerminal { productions: v }
        };
        Grammar { empty_index: SymbolIndex(3), productions: ProdVec(prods), nonterminals: NonTermVec([nt(&[]), nt(&[0, 1]), nt(&[2, 3]), nt(&[4, 5])]) }
    }

    /// reference LR(1) closure lookaheads: la[prod] for items with the dot at 0, by fixpoint
    fn reference(k_prod: [usize; 2], k_pos: [usize; 2], k_la: [u8; 2], nk: usize) -> [u8; 6] {
        let mut la = [0u8; 6];
        let mut present = [false; 6];
        let mut round = 0;
        while round < 8 {
            // contributions of every item (kernel or non-kernel with dot at 0)
            let mut src = 0;
            while src < nk + 6 {
                let (p, pos, l) = if src < nk { (k_prod[src], k_pos[src], k_la[src]) } else { (src - nk, 0, la[src - nk]) };
                let active = src < nk || present[src - nk];
                if active && pos < RHS[p].len() && RHS[p][pos] >= 4 {
                    let b = RHS[p][pos];
                    // FIRST(beta) with beta = rest after b
                    let mut f: u8 = 0;
                    let mut nullable = true;
                    let mut j = pos + 1;
                    while j < RHS[p].len() {
                        let fs = FIRST[RHS[p][j]];
                        f |= fs & !0b1000;
                        if fs & 0b1000 == 0 {
                            nullable = false;
                            break;
                        }
                        j += 1;
                    }
                    if nullable {
                        f |= l;
                    }
                    let mut q = 0;
                    while q < 6 {
                        if LHS[q] == b {
                            present[q] = true;
                            la[q] |= f;
                        }
                        q += 1;
                    }
                }
                src += 1;
            }
            round += 1;
        }
        let mut q = 0;
        while q < 6 {
            if !present[q] {
                la[q] = 0xff; // marker: not in the closure
            }
            q += 1;
        }
        la
    }

    fn run(nk: usize, k_prod: [usize; 2], k_pos: [usize; 2]) -> [u8; 2] {
        let g = grammar();
        let first_sets = SymbolVec([BitSet(FIRST[0]), BitSet(FIRST[1]), BitSet(FIRST[2]), BitSet(FIRST[3]), BitSet(FIRST[4]), BitSet(FIRST[5]), BitSet(FIRST[6])]);
        let k_la: [u8; 2] = kani::any();
        kani::assume(k_la[0] != 0 && k_la[0] < 8 && k_la[1] != 0 && k_la[1] < 8);
        let mut items = Vec::new();
        let mut i = 0;
        while i < nk {
            items.push(LRItem { prod: ProdIndex(k_prod[i]), prod_len: RHS[k_prod[i]].len(), rn_len: None, position: k_pos[i], follow: RefCell::new(BitSet(k_la[i])) });
            i += 1;
        }
        let mut st = LRState { grammar: &g, items: ItemVec(items) };
        st.closure(&first_sets, &None);
        let want = reference(k_prod, k_pos, k_la, nk);
        // every non-kernel item the reference has is in the state with exactly its lookaheads
        let mut q = 0;
        while q < 6 {
            let mut found: Option<u8> = None;
            let mut n = 0;
            let mut i = nk;
            while i < st.items.0.len() {
                if st.items.0[i].prod.0 == q && st.items.0[i].position == 0 {
                    found = Some(st.items.0[i].follow.borrow().0);
                    n += 1;
                }
                i += 1;
            }
            assert!(n <= 1, "C04 an item occurs once in a state");
            if want[q] == 0xff {
                assert!(found.is_none(), "C04 closure adds only items of non-terminals after a dot");
            } else {
                assert!(found == Some(want[q]), "C04 closure gives every item exactly its LR(1) lookaheads (none lost, none invented)");
            }
            q += 1;
        }
        // kernel items keep their lookaheads
        let mut i = 0;
        while i < nk {
            assert!(st.items.0[i].follow.borrow().0 == k_la[i], "C04 closure does not change kernel lookaheads");
            i += 1;
        }
        k_la
    }

    /// kernel [A: . B C, F]: three levels, nullable C after B
    #[kani::proof]
    #[kani::unwind(10)]
    pub fn closure_a() {
        let la = run(1, [0, 0], [0, 0]);
        kani::cover!(la[0] == 0b101, "two lookaheads on the kernel");
    }
    /// kernels [A: . B C, F] and [A: t0 . C, F2]: C reached from two parents
    #[kani::proof]
    #[kani::unwind(10)]
    pub fn closure_two_parents() {
        let la = run(2, [0, 1], [0, 1]);
        kani::cover!(la[0] != la[1] && la[0] & la[1] == 0, "disjoint lookaheads from the two parents");
    }
    /// kernels [C: t2 . B, F] and [A: B . C, F2]: recursion C -> t2 B -> C
    #[kani::proof]
    #[kani::unwind(10)]
    pub fn closure_recursive() {
        let la = run(2, [5, 0], [1, 1]);
        kani::cover!(la[0] == 0b010 && la[1] == 0b001, "distinct single lookaheads");
    }
    #[kani::proof]
    #[kani::unwind(10)]
    pub fn closure_twin_must_fail() {
        let _ = run(1, [0, 0], [0, 0]);
        assert!(false, "twin: reachable end of harness");
    }
}
