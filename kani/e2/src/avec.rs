//! `Vec<T>` stand-in for slices: a heap-free vector of fixed capacity offering the method
//! names the sliced code uses (through `Deref<Target=[T]>` for everything slices offer).
//! A harness module that includes a slice shadows `Vec`/`vec!` with this type, so that the
//! sliced source keeps its text while CBMC sees arrays instead of malloc/realloc/memcpy.
//!
//! Exceeding the capacity is a *bound* of the harness, not a property of the code: it is
//! reported through an assertion whose message starts with `BOUND:` and the runner
//! classifies it as inconclusive, never as a violation.
use std::ops::{Deref, DerefMut};

pub const CAP: usize = 6;

#[derive(Clone, Copy, Debug)]
pub struct AVec<T: Copy + Default> {
    len: usize,
    data: [T; CAP],
}

impl<T: Copy + Default> AVec<T> {
    pub fn new() -> Self {
        AVec { len: 0, data: [T::default(); CAP] }
    }
    pub fn with_capacity(_n: usize) -> Self {
        Self::new()
    }
    pub fn from_slice(s: &[T]) -> Self {
        let mut v = Self::new();
        let mut i = 0;
        while i < s.len() {
            v.push(s[i]);
            i += 1;
        }
        v
    }
    pub fn push(&mut self, x: T) {
        assert!(self.len < CAP, "BOUND: AVec capacity exceeded");
        self.data[self.len] = x;
        self.len += 1;
    }
    pub fn pop(&mut self) -> Option<T> {
        if self.len == 0 {
            None
        } else {
            self.len -= 1;
            Some(self.data[self.len])
        }
    }
    pub fn clear(&mut self) {
        self.len = 0;
    }
    pub fn truncate(&mut self, n: usize) {
        if n < self.len {
            self.len = n;
        }
    }
    pub fn retain<F: FnMut(&T) -> bool>(&mut self, mut f: F) {
        let mut w = 0;
        let mut r = 0;
        while r < self.len {
            let x = self.data[r];
            if f(&x) {
                self.data[w] = x;
                w += 1;
            }
            r += 1;
        }
        self.len = w;
    }
    /// `Vec::split_off`: panics if `at > len`, like the real one.
    pub fn split_off(&mut self, at: usize) -> Self {
        assert!(at <= self.len, "`at` split index (is {at}) should be <= len");
        let mut o = Self::new();
        let mut i = at;
        while i < self.len {
            o.push(self.data[i]);
            i += 1;
        }
        self.len = at;
        o
    }
    pub fn insert(&mut self, idx: usize, x: T) {
        assert!(idx <= self.len, "insertion index should be <= len");
        assert!(self.len < CAP, "BOUND: AVec capacity exceeded");
        let mut i = self.len;
        while i > idx {
            self.data[i] = self.data[i - 1];
            i -= 1;
        }
        self.data[idx] = x;
        self.len += 1;
    }
    pub fn remove(&mut self, idx: usize) -> T {
        assert!(idx < self.len, "removal index should be < len");
        let x = self.data[idx];
        let mut i = idx;
        while i + 1 < self.len {
            self.data[i] = self.data[i + 1];
            i += 1;
        }
        self.len -= 1;
        x
    }
    pub fn as_slice(&self) -> &[T] {
        &self.data[..self.len]
    }
}

impl<T: Copy + Default> Default for AVec<T> {
    fn default() -> Self {
        Self::new()
    }
}
impl<T: Copy + Default> Deref for AVec<T> {
    type Target = [T];
    fn deref(&self) -> &[T] {
        &self.data[..self.len]
    }
}
impl<T: Copy + Default> DerefMut for AVec<T> {
    fn deref_mut(&mut self) -> &mut [T] {
        &mut self.data[..self.len]
    }
}
impl<T: Copy + Default> Extend<T> for AVec<T> {
    fn extend<I: IntoIterator<Item = T>>(&mut self, it: I) {
        for x in it {
            self.push(x);
        }
    }
}
impl<T: Copy + Default> FromIterator<T> for AVec<T> {
    fn from_iter<I: IntoIterator<Item = T>>(it: I) -> Self {
        let mut v = Self::new();
        for x in it {
            v.push(x);
        }
        v
    }
}
pub struct AIntoIter<T: Copy + Default> {
    v: AVec<T>,
    i: usize,
}
impl<T: Copy + Default> Iterator for AIntoIter<T> {
    type Item = T;
    fn next(&mut self) -> Option<T> {
        if self.i < self.v.len {
            let x = self.v.data[self.i];
            self.i += 1;
            Some(x)
        } else {
            None
        }
    }
}
impl<T: Copy + Default> IntoIterator for AVec<T> {
    type Item = T;
    type IntoIter = AIntoIter<T>;
    fn into_iter(self) -> AIntoIter<T> {
        AIntoIter { v: self, i: 0 }
    }
}
impl<'a, T: Copy + Default> IntoIterator for &'a AVec<T> {
    type Item = &'a T;
    type IntoIter = std::slice::Iter<'a, T>;
    fn into_iter(self) -> std::slice::Iter<'a, T> {
        self.as_slice().iter()
    }
}
impl<'a, T: Copy + Default> IntoIterator for &'a mut AVec<T> {
    type Item = &'a mut T;
    type IntoIter = std::slice::IterMut<'a, T>;
    fn into_iter(self) -> std::slice::IterMut<'a, T> {
        let l = self.len;
        self.data[..l].iter_mut()
    }
}
impl<T: Copy + Default + PartialEq> PartialEq for AVec<T> {
    fn eq(&self, o: &Self) -> bool {
        self.as_slice() == o.as_slice()
    }
}

/// `vec!` stand-in producing an [`AVec`].
#[macro_export]
macro_rules! avec {
    () => { $crate::avec::AVec::new() };
    ($($x:expr),+ $(,)?) => { $crate::avec::AVec::from_slice(&[$($x),+]) };
}
