//! `Vec<T>` stand-in for slices: a heap-free vector of fixed capacity offering the method
//! names the sliced code uses (through `Deref<Target=[T]>` for everything slices offer).
//! A harness module that includes a slice shadows `Vec`/`vec!` with this type, so that the
//! sliced source keeps its text while CBMC sees arrays instead of malloc/realloc/memcpy.
//!
//! Exceeding the capacity is a *bound* of the harness, not a property of the code: it is
//! reported through an assertion whose message starts with `BOUND:` and the runner
//! classifies it as inconclusive, never as a violation.
use std::mem::MaybeUninit;
use std::ops::{Deref, DerefMut};

pub const CAP: usize = 6;

pub struct AVec<T, const N: usize = CAP> {
    len: usize,
    data: [MaybeUninit<T>; N],
}

impl<T: std::fmt::Debug, const N: usize> std::fmt::Debug for AVec<T, N> {
    fn fmt(&self, f: &mut std::fmt::Formatter<'_>) -> std::fmt::Result {
        f.debug_list().entries(self.as_slice().iter()).finish()
    }
}

impl<T, const N: usize> AVec<T, N> {
    pub fn new() -> Self {
        // SAFETY: an array of MaybeUninit needs no initialisation.
        AVec { len: 0, data: unsafe { MaybeUninit::<[MaybeUninit<T>; N]>::uninit().assume_init() } }
    }
    pub fn with_capacity(_n: usize) -> Self {
        Self::new()
    }
    pub fn push(&mut self, x: T) {
        assert!(self.len < N, "BOUND: AVec capacity exceeded");
        self.data[self.len] = MaybeUninit::new(x);
        self.len += 1;
    }
    pub fn pop(&mut self) -> Option<T> {
        if self.len == 0 {
            None
        } else {
            self.len -= 1;
            // SAFETY: element `len` was initialised and is now outside the vector.
            Some(unsafe { self.data[self.len].assume_init_read() })
        }
    }
    pub fn clear(&mut self) {
        self.truncate(0)
    }
    pub fn truncate(&mut self, n: usize) {
        if !std::mem::needs_drop::<T>() {
            // nothing to drop: no loop for plain data
            if n < self.len {
                self.len = n;
            }
            return;
        }
        while self.len > n {
            self.len -= 1;
            // SAFETY: initialised, now outside the vector.
            unsafe { self.data[self.len].assume_init_drop() };
        }
    }
    pub fn retain<F: FnMut(&T) -> bool>(&mut self, mut f: F) {
        let n = self.len;
        self.len = 0;
        let mut r = 0;
        while r < n {
            // SAFETY: elements r..n are initialised and owned by this loop.
            let x = unsafe { self.data[r].assume_init_read() };
            if f(&x) {
                self.data[self.len] = MaybeUninit::new(x);
                self.len += 1;
            }
            r += 1;
        }
    }
    /// `Vec::split_off`: panics if `at > len`, like the real one.
    pub fn split_off(&mut self, at: usize) -> Self {
        assert!(at <= self.len, "`at` split index should be <= len");
        let mut o = Self::new();
        let mut i = at;
        while i < self.len {
            // SAFETY: initialised; ownership moves to `o`.
            o.push(unsafe { self.data[i].assume_init_read() });
            i += 1;
        }
        self.len = at;
        o
    }
    pub fn insert(&mut self, idx: usize, x: T) {
        assert!(idx <= self.len, "insertion index should be <= len");
        assert!(self.len < N, "BOUND: AVec capacity exceeded");
        let mut i = self.len;
        while i > idx {
            // SAFETY: moving initialised elements one slot up.
            self.data[i] = MaybeUninit::new(unsafe { self.data[i - 1].assume_init_read() });
            i -= 1;
        }
        self.data[idx] = MaybeUninit::new(x);
        self.len += 1;
    }
    pub fn remove(&mut self, idx: usize) -> T {
        assert!(idx < self.len, "removal index should be < len");
        // SAFETY: initialised.
        let x = unsafe { self.data[idx].assume_init_read() };
        let mut i = idx;
        while i + 1 < self.len {
            self.data[i] = MaybeUninit::new(unsafe { self.data[i + 1].assume_init_read() });
            i += 1;
        }
        self.len -= 1;
        x
    }
    pub fn as_slice(&self) -> &[T] {
        // SAFETY: the first `len` elements are initialised.
        unsafe { std::slice::from_raw_parts(self.data.as_ptr() as *const T, self.len) }
    }
    pub fn as_mut_slice(&mut self) -> &mut [T] {
        // SAFETY: the first `len` elements are initialised.
        unsafe { std::slice::from_raw_parts_mut(self.data.as_mut_ptr() as *mut T, self.len) }
    }
    /// Stable insertion sort with the caller's comparator. (`[T]::sort_by` itself is not
    /// the subject of any property; the comparator passed by the sliced code is.)
    pub fn sort_by<F: FnMut(&T, &T) -> std::cmp::Ordering>(&mut self, mut f: F) {
        let n = self.len;
        let s = self.as_mut_slice();
        let mut i = 1;
        while i < n {
            let mut j = i;
            while j > 0 && f(&s[j - 1], &s[j]) == std::cmp::Ordering::Greater {
                s.swap(j - 1, j);
                j -= 1;
            }
            i += 1;
        }
    }
    pub fn sort(&mut self)
    where
        T: Ord,
    {
        self.sort_by(|a, b| a.cmp(b))
    }
    pub fn extend_from_slice(&mut self, s: &[T])
    where
        T: Clone,
    {
        let mut i = 0;
        while i < s.len() {
            self.push(s[i].clone());
            i += 1;
        }
    }
    pub fn from_slice(s: &[T]) -> Self
    where
        T: Clone,
    {
        let mut v = Self::new();
        v.extend_from_slice(s);
        v
    }
}

impl<T, const N: usize> Drop for AVec<T, N> {
    fn drop(&mut self) {
        self.truncate(0)
    }
}
impl<T: Clone, const N: usize> Clone for AVec<T, N> {
    fn clone(&self) -> Self {
        Self::from_slice(self.as_slice())
    }
}
impl<T, const N: usize> Default for AVec<T, N> {
    fn default() -> Self {
        Self::new()
    }
}
impl<T, const N: usize> Deref for AVec<T, N> {
    type Target = [T];
    fn deref(&self) -> &[T] {
        self.as_slice()
    }
}
impl<T, const N: usize> DerefMut for AVec<T, N> {
    fn deref_mut(&mut self) -> &mut [T] {
        self.as_mut_slice()
    }
}
impl<T, const N: usize> Extend<T> for AVec<T, N> {
    fn extend<I: IntoIterator<Item = T>>(&mut self, it: I) {
        for x in it {
            self.push(x);
        }
    }
}
impl<'a, T: Copy + 'a, const N: usize> Extend<&'a T> for AVec<T, N> {
    fn extend<I: IntoIterator<Item = &'a T>>(&mut self, it: I) {
        for x in it {
            self.push(*x);
        }
    }
}
impl<T, const N: usize> FromIterator<T> for AVec<T, N> {
    fn from_iter<I: IntoIterator<Item = T>>(it: I) -> Self {
        let mut v = Self::new();
        for x in it {
            v.push(x);
        }
        v
    }
}
pub struct AIntoIter<T, const N: usize> {
    v: AVec<T, N>,
    i: usize,
}
impl<T, const N: usize> Iterator for AIntoIter<T, N> {
    type Item = T;
    fn next(&mut self) -> Option<T> {
        if self.i < self.v.len {
            // SAFETY: elements i..len are initialised and owned by the iterator.
            let x = unsafe { self.v.data[self.i].assume_init_read() };
            self.i += 1;
            Some(x)
        } else {
            None
        }
    }
}
impl<T, const N: usize> Drop for AIntoIter<T, N> {
    fn drop(&mut self) {
        while std::mem::needs_drop::<T>() && self.i < self.v.len {
            // SAFETY: not yet yielded, still initialised.
            unsafe { self.v.data[self.i].assume_init_drop() };
            self.i += 1;
        }
        self.v.len = 0;
    }
}
impl<T, const N: usize> IntoIterator for AVec<T, N> {
    type Item = T;
    type IntoIter = AIntoIter<T, N>;
    fn into_iter(self) -> AIntoIter<T, N> {
        // SAFETY: `self` is forgotten right after the bitwise move into the iterator.
        let v = unsafe { std::ptr::read(&self) };
        std::mem::forget(self);
        AIntoIter { v, i: 0 }
    }
}
impl<'a, T, const N: usize> IntoIterator for &'a AVec<T, N> {
    type Item = &'a T;
    type IntoIter = std::slice::Iter<'a, T>;
    fn into_iter(self) -> std::slice::Iter<'a, T> {
        self.as_slice().iter()
    }
}
impl<'a, T, const N: usize> IntoIterator for &'a mut AVec<T, N> {
    type Item = &'a mut T;
    type IntoIter = std::slice::IterMut<'a, T>;
    fn into_iter(self) -> std::slice::IterMut<'a, T> {
        self.as_mut_slice().iter_mut()
    }
}
impl<T: PartialEq, const N: usize> PartialEq for AVec<T, N> {
    fn eq(&self, o: &Self) -> bool {
        self.as_slice() == o.as_slice()
    }
}
impl<T: Eq, const N: usize> Eq for AVec<T, N> {}

/// `vec!` stand-in producing an [`AVec`].
#[macro_export]
macro_rules! avec {
    () => { $crate::avec::AVec::new() };
    ($($x:expr),+ $(,)?) => {{ let mut v = $crate::avec::AVec::new(); $( v.push($x); )+ v }};
}
