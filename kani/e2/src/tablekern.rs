//! C04 / C03 kernels of the table construction, each a slice of
//! rustemo-compiler/src/table/mod.rs compiled against set/vector stand-ins:
//!   * `firsts(grammar, first_sets, symbols)`            (whole function)
//!   * `production_rn_lengths(first_sets, grammar)`       (whole function)
//!   * `LRItem::{is_kernel, is_reducing, inc_position}`   (whole functions)
//!   * `LRState: PartialEq`, `LRState::kernel_items`      (whole items)
//!   * `LRTable::merge_state(settings, old, new)`         (whole function)
//! `BTreeSet<SymbolIndex>` is an 8-bit bitset offering the method names the slices use.
use std::cell::RefCell;
use std::iter;
use std::marker::PhantomData;
use std::ops::{Index, IndexMut};

type Vec<T> = crate::avec::AVec<T, 4>;
macro_rules! vec { ($($t:tt)*) => { $crate::avec!($($t)*) } }
macro_rules! log { ($($t:tt)*) => {} }

#[derive(Debug, Clone, Copy, PartialEq, Eq, PartialOrd, Ord, Hash, Default)]
pub struct SymbolIndex(pub usize);
#[derive(Debug, Clone, Copy, PartialEq, Eq, PartialOrd, Ord, Hash, Default)]
pub struct ProdIndex(pub usize);

pub static SYMS: [SymbolIndex; 8] = [SymbolIndex(0), SymbolIndex(1), SymbolIndex(2), SymbolIndex(3), SymbolIndex(4), SymbolIndex(5), SymbolIndex(6), SymbolIndex(7)];

/// `BTreeSet<SymbolIndex>` stand-in: bit i = SymbolIndex(i), i < 8. Iteration is in
/// ascending order, like the real set.
#[derive(Debug, Clone, Copy, PartialEq, Eq, PartialOrd, Ord)]
pub struct BTreeSet<T>(pub u8, PhantomData<T>);
pub struct BitIter {
    bits: u8,
}
impl Iterator for BitIter {
    type Item = &'static SymbolIndex;
    /// loop-free: lowest set bit first (ascending order, like the real set)
    fn next(&mut self) -> Option<Self::Item> {
        if self.bits == 0 {
            None
        } else {
            let i = self.bits.trailing_zeros() as usize;
            self.bits &= self.bits - 1;
            Some(&SYMS[i])
        }
    }
}
impl BTreeSet<SymbolIndex> {
    pub fn new() -> Self {
        BTreeSet(0, PhantomData)
    }
    pub fn bits(b: u8) -> Self {
        BTreeSet(b, PhantomData)
    }
    pub fn insert(&mut self, x: SymbolIndex) -> bool {
        assert!(x.0 < 8, "BOUND: bitset element");
        let had = self.0 & (1 << x.0) != 0;
        self.0 |= 1 << x.0;
        !had
    }
    pub fn remove(&mut self, x: &SymbolIndex) -> bool {
        assert!(x.0 < 8, "BOUND: bitset element");
        let had = self.0 & (1 << x.0) != 0;
        self.0 &= !(1 << x.0);
        had
    }
    pub fn contains(&self, x: &SymbolIndex) -> bool {
        x.0 < 8 && self.0 & (1 << x.0) != 0
    }
    pub fn len(&self) -> usize {
        self.0.count_ones() as usize
    }
    pub fn is_empty(&self) -> bool {
        self.0 == 0
    }
    pub fn iter(&self) -> BitIter {
        BitIter { bits: self.0 }
    }
    pub fn intersection(&self, o: &Self) -> BitIter {
        BitIter { bits: self.0 & o.0 }
    }
}
impl<'a> IntoIterator for &'a BTreeSet<SymbolIndex> {
    type Item = &'static SymbolIndex;
    type IntoIter = BitIter;
    fn into_iter(self) -> BitIter {
        self.iter()
    }
}
impl<'a> Extend<&'a SymbolIndex> for BTreeSet<SymbolIndex> {
    fn extend<I: IntoIterator<Item = &'a SymbolIndex>>(&mut self, it: I) {
        for x in it {
            self.insert(*x);
        }
    }
}
impl Extend<SymbolIndex> for BTreeSet<SymbolIndex> {
    fn extend<I: IntoIterator<Item = SymbolIndex>>(&mut self, it: I) {
        for x in it {
            self.insert(x);
        }
    }
}

pub type Firsts = BTreeSet<SymbolIndex>;
pub type Follow = BTreeSet<SymbolIndex>;
pub const NSYM: usize = 6;
/// `SymbolVec<T>` stand-in.
pub struct SymbolVec<T>(pub [T; NSYM]);
impl<T> Index<SymbolIndex> for SymbolVec<T> {
    type Output = T;
    fn index(&self, i: SymbolIndex) -> &T {
        &self.0[i.0]
    }
}
pub type FirstSets = SymbolVec<Firsts>;

/// `ProdVec<T>` stand-in (new / push / iteration / indexing).
#[derive(Debug, Clone)]
pub struct ProdVec<T>(pub Vec<T>);
impl<T> ProdVec<T> {
    pub fn new() -> Self {
        ProdVec(Vec::new())
    }
    pub fn push(&mut self, x: T) {
        self.0.push(x)
    }
    pub fn len(&self) -> usize {
        self.0.len()
    }
}
impl<'a, T> IntoIterator for &'a ProdVec<T> {
    type Item = &'a T;
    type IntoIter = std::slice::Iter<'a, T>;
    fn into_iter(self) -> Self::IntoIter {
        self.0.as_slice().iter()
    }
}
impl<T> Index<ProdIndex> for ProdVec<T> {
    type Output = T;
    fn index(&self, i: ProdIndex) -> &T {
        &self.0[i.0]
    }
}

#[derive(Debug, Clone)]
pub struct Production {
    pub rhs: Vec<SymbolIndex>,
}
impl Production {
    pub fn rhs_symbols(&self) -> Vec<SymbolIndex> {
        self.rhs.clone()
    }
}
pub struct Grammar {
    pub empty_index: SymbolIndex,
    pub productions: ProdVec<Production>,
}

// ---- sliced free functions -----------------------------------------------------------------
include!("../gen/firsts_fn.rs");
include!("../gen/rn_lengths_fn.rs");

// ---- LRItem / LRState / merge_state ----------------------------------------------------------
#[derive(Debug, Eq, Clone, PartialOrd, Ord)]
pub struct LRItem {
    pub prod: ProdIndex,
    pub prod_len: usize,
    pub rn_len: Option<usize>,
    pub position: usize,
    pub follow: RefCell<Follow>,
}
impl PartialEq for LRItem {
    fn eq(&self, other: &Self) -> bool {
        self.prod == other.prod && self.position == other.position
    }
}
include!("../gen/lritem_fns.rs"); // `impl LRItem { <the three functions, verbatim> }`

/// `ItemVec<LRItem>` stand-in.
#[derive(Debug, Clone)]
pub struct ItemVec<T>(pub Vec<T>);
impl<T> ItemVec<T> {
    pub fn iter(&self) -> std::slice::Iter<'_, T> {
        self.0.as_slice().iter()
    }
    pub fn iter_mut(&mut self) -> std::slice::IterMut<'_, T> {
        self.0.as_mut_slice().iter_mut()
    }
}
impl<T> IntoIterator for ItemVec<T> {
    type Item = T;
    type IntoIter = crate::avec::AIntoIter<T, 4>;
    fn into_iter(self) -> Self::IntoIter {
        self.0.into_iter()
    }
}

pub struct LRState<'g> {
    pub items: ItemVec<LRItem>,
    pub g: PhantomData<&'g ()>,
}
include!("../gen/kernel_items_fn.rs"); // `impl<'g> LRState<'g> { <fn kernel_items, verbatim> }`
include!("../gen/lrstate_eq.rs");

#[allow(non_camel_case_types)]
#[derive(Debug, Clone, Copy, PartialEq, Eq)]
pub enum TableType {
    LALR,
    LALR_PAGER,
    LALR_RN,
}
pub struct Settings {
    pub table_type: TableType,
}
/// itertools' free function `chain`.
pub fn chain<A: IntoIterator, B: IntoIterator<Item = A::Item>>(a: A, b: B) -> iter::Chain<A::IntoIter, B::IntoIter> {
    a.into_iter().chain(b)
}
pub struct LRTable<'g, 's>(PhantomData<(&'g (), &'s ())>);
include!("../gen/merge_state_fn.rs"); // `impl<'g, 's> LRTable<'g, 's> { <fn merge_state, verbatim> }`

#[cfg(kani)]
pub mod proofs {
    use super::*;
    const EMPTY: usize = 5;

    fn any_first_sets() -> [u8; NSYM] {
        let b: [u8; NSYM] = kani::any();
        let mut i = 0;
        while i < NSYM {
            kani::assume(b[i] < (1 << NSYM));
            i += 1;
        }
        b
    }

    macro_rules! firsts_h {
        ($name:ident, $len:tt) => {
            /// FIRST of a symbol sequence: union of FIRST(s_i) \ {EMPTY} over the maximal
            /// nullable prefix plus the first non-nullable symbol; EMPTY iff all are nullable.
            #[kani::proof]
            #[kani::unwind(10)]
            pub fn $name() {
                let fs = any_first_sets();
                let g = Grammar { empty_index: SymbolIndex(EMPTY), productions: ProdVec::new() };
                let first_sets = SymbolVec([Firsts::bits(fs[0]), Firsts::bits(fs[1]), Firsts::bits(fs[2]), Firsts::bits(fs[3]), Firsts::bits(fs[4]), Firsts::bits(fs[5])]);
                let seq: [usize; 3] = kani::any();
                let mut syms = [SymbolIndex(0); 3];
                let mut i = 0;
                while i < 3 {
                    kani::assume(seq[i] < NSYM);
                    syms[i] = SymbolIndex(seq[i]);
                    i += 1;
                }
                let got = firsts(&g, &first_sets, &syms[..$len]);
                // reference
                let mut want: u8 = 0;
                let mut all_nullable = true;
                let mut i = 0;
                while i < $len {
                    let f = fs[seq[i]];
                    want |= f & !(1 << EMPTY);
                    if f & (1 << EMPTY) == 0 {
                        all_nullable = false;
                        break;
                    }
                    i += 1;
                }
                if all_nullable {
                    want |= 1 << EMPTY;
                }
                assert!(got.0 == want, "C04 FIRST of a sequence");
                firsts_cov!($len, all_nullable, i);
            }
        };
    }
    macro_rules! firsts_cov {
        (0, $a:ident, $i:ident) => {
            kani::cover!($a, "empty sequence is nullable");
        };
        (1, $a:ident, $i:ident) => {
            kani::cover!($a, "all symbols nullable");
            kani::cover!(!$a, "non-nullable symbol");
        };
        ($len:expr, $a:ident, $i:ident) => {
            kani::cover!(!$a && $i >= 1, "nullable prefix then a non-nullable symbol");
            kani::cover!($a, "all symbols nullable");
        };
    }
    firsts_h!(firsts_0, 0);
    firsts_h!(firsts_1, 1);
    firsts_h!(firsts_2, 2);
    firsts_h!(firsts_3, 3);

    fn prod(rhs: &[usize]) -> Production {
        let mut v = Vec::new();
        let mut i = 0;
        while i < rhs.len() {
            v.push(SymbolIndex(rhs[i]));
            i += 1;
        }
        Production { rhs: v }
    }

    macro_rules! rn_h {
        ($name:ident, $len:tt) => {
            /// Right-nulled length: the least p such that every symbol at positions >= p is
            /// nullable (C03/C04: the only extra GLR reductions are at positions after which
            /// the rest of the production is nullable).
            #[kani::proof]
            #[kani::unwind(10)]
            pub fn $name() {
                let fs = any_first_sets();
                let first_sets = SymbolVec([Firsts::bits(fs[0]), Firsts::bits(fs[1]), Firsts::bits(fs[2]), Firsts::bits(fs[3]), Firsts::bits(fs[4]), Firsts::bits(fs[5])]);
                let seq: [usize; 4] = kani::any();
                let mut i = 0;
                while i < 4 {
                    kani::assume(seq[i] < NSYM);
                    i += 1;
                }
                let mut productions = ProdVec::new();
                productions.push(prod(&[0]));
                productions.push(prod(&seq[..$len]));
                let g = Grammar { empty_index: SymbolIndex(EMPTY), productions };
                let got = production_rn_lengths(&first_sets, &g);
                assert!(got.len() == 2, "one length per production");
                let nullable = |s: usize| fs[s] & (1 << EMPTY) != 0;
                let mut want = $len;
                while want > 0 && nullable(seq[want - 1]) {
                    want -= 1;
                }
                assert!(got[ProdIndex(1)] == want, "C04 right-nulled length of a production");
                assert!(got[ProdIndex(0)] == if nullable(0) { 0 } else { 1 });
                // is_reducing: at the end, or (RN table) at/after the right-nulled length
                let position: usize = kani::any();
                kani::assume(position <= $len);
                let rn: bool = kani::any();
                let item = LRItem { prod: ProdIndex(1), prod_len: $len, rn_len: if rn { Some(want) } else { None }, position, follow: RefCell::new(Follow::new()) };
                let mut rest_nullable = true;
                let mut k = position;
                while k < $len {
                    if !nullable(seq[k]) {
                        rest_nullable = false;
                    }
                    k += 1;
                }
                assert!(item.is_reducing() == (position == $len || (rn && rest_nullable)), "C04 an item reduces at the end, or in an RN table when the rest of the production is nullable");
                assert!(item.is_kernel() == (position > 0), "kernel items have the dot inside (production 0 is the augmented one)");
                rn_cov!($len, want, rn, position, rest_nullable);
            }
        };
    }
    macro_rules! rn_cov {
        (0, $w:ident, $rn:ident, $p:ident, $r:ident) => {
            kani::cover!($rn, "empty production in an RN table");
        };
        ($len:expr, $w:ident, $rn:ident, $p:ident, $r:ident) => {
            kani::cover!($w == 1, "all but the first symbol nullable");
            kani::cover!($rn && $p < $len && $r, "right-nulled reduction");
        };
    }
    rn_h!(rn_len_0, 0);
    rn_h!(rn_len_2, 2);
    rn_h!(rn_len_3, 3);
    rn_h!(rn_len_4, 4);

    fn any_follow(nterm: usize) -> u8 {
        let b: u8 = kani::any();
        kani::assume(b != 0 && (b as usize) < (1 << nterm));
        b
    }

    /// merge_state on two states with the same kernel of K items.
    fn merge<const K: usize>(tt: TableType) -> (bool, bool) {
        const NTERM: usize = 3;
        let mut positions = [0usize; 3];
        let mut lens = [0usize; 3];
        let mut rn = [None; 3];
        let mut fo = [0u8; 3];
        let mut fn_ = [0u8; 3];
        let mut old_items = Vec::new();
        let mut new_items = Vec::new();
        let mut i = 0;
        while i < K {
            // the dot position only matters through is_kernel / is_reducing: keep it concrete
            // (kernel item) and let the production length decide whether the item reduces
            positions[i] = 1;
            lens[i] = if kani::any() { 1 } else { 2 };
            if tt == TableType::LALR_RN {
                let r: usize = kani::any();
                kani::assume(r <= lens[i]);
                rn[i] = Some(r);
            }
            fo[i] = any_follow(NTERM);
            fn_[i] = any_follow(NTERM);
            old_items.push(LRItem { prod: ProdIndex(i + 1), prod_len: lens[i], rn_len: rn[i], position: positions[i], follow: RefCell::new(Follow::bits(fo[i])) });
            new_items.push(LRItem { prod: ProdIndex(i + 1), prod_len: lens[i], rn_len: rn[i], position: positions[i], follow: RefCell::new(Follow::bits(fn_[i])) });
            i += 1;
        }
        // a non-kernel item in the old state (closure already computed there) is left alone
        old_items.push(LRItem { prod: ProdIndex(5), prod_len: 2, rn_len: rn[0].map(|_| 2), position: 0, follow: RefCell::new(Follow::bits(1)) });
        let mut old_state = LRState { items: ItemVec(old_items), g: PhantomData };
        let new_state = LRState { items: ItemVec(new_items), g: PhantomData };
        let settings = Settings { table_type: tt };
        let merged = LRTable::merge_state(&settings, &mut old_state, &new_state);

        // reference: weak compatibility (Denny & Malloy def. 2.29 as quoted in the source,
        // restricted to reducing items as the source states): merging is refused iff for
        // some reducing item i and another kernel item j there is a terminal t that would
        // newly bring the two together - t in (F_i ∩ F'_j) ∪ (F_j ∩ F'_i) - while neither
        // state already has t in both (t ∉ F_i ∩ F_j and t ∉ F'_i ∩ F'_j).
        let reducing = |i: usize| positions[i] == lens[i] || matches!(rn[i], Some(r) if positions[i] >= r);
        let mut refuse = false;
        if tt != TableType::LALR {
            let mut i = 0;
            while i < K {
                let mut j = 0;
                while j < K {
                    if i != j && reducing(i) {
                        let cross = (fo[i] & fn_[j]) | (fo[j] & fn_[i]);
                        let already = (fo[i] & fo[j]) | (fn_[i] & fn_[j]);
                        if cross & !already != 0 {
                            refuse = true;
                        }
                    }
                    j += 1;
                }
                i += 1;
            }
        }
        assert!(merged == !refuse, "C04 states merge unless merging would introduce a new reduce/reduce pair (always for LALR)");
        let mut i = 0;
        while i < K {
            let f = old_state.items.0[i].follow.borrow().0;
            if merged {
                assert!(f == fo[i] | fn_[i], "C04 merged lookaheads = union of both states' lookaheads");
            } else {
                assert!(f == fo[i], "C04 a refused merge leaves the old state unchanged");
            }
            i += 1;
        }
        assert!(old_state.items.0[K].follow.borrow().0 == 1, "non-kernel items are not touched by a merge");
        (merged, refuse)
    }

    macro_rules! merge_h {
        ($name:ident, $k:tt, $tt:expr, $lalr:tt) => {
            #[kani::proof]
            #[kani::unwind(5)] // <= 4 items, <= 3 terminals per follow set
            pub fn $name() {
                let (merged, refuse) = merge::<$k>($tt);
                merge_cov!($lalr, $k, merged);
            }
        };
    }
    macro_rules! merge_cov {
        (true, $k:expr, $m:ident) => {
            kani::cover!($m, "merged");
        };
        (false, 1, $m:ident) => {
            kani::cover!($m, "merged");
        };
        (false, $k:expr, $m:ident) => {
            kani::cover!($m, "merged");
            kani::cover!(!$m, "merge refused");
        };
    }
    merge_h!(merge_lalr_2, 2, TableType::LALR, true);
    merge_h!(merge_pager_1, 1, TableType::LALR_PAGER, false);
    merge_h!(merge_pager_2, 2, TableType::LALR_PAGER, false);
    merge_h!(merge_pager_3, 3, TableType::LALR_PAGER, false);
    merge_h!(merge_rn_2, 2, TableType::LALR_RN, false);
    merge_h!(merge_rn_3, 3, TableType::LALR_RN, false);

    /// states with different kernels never merge (state identity = ordered kernel core)
    #[kani::proof]
    #[kani::unwind(5)]
    pub fn merge_different_kernels() {
        let p: [usize; 4] = kani::any();
        let pos: [usize; 4] = kani::any();
        let mut a = Vec::new();
        let mut b = Vec::new();
        let mut i = 0;
        while i < 2 {
            kani::assume(p[i] >= 1 && p[i] <= 3 && pos[i] >= 1 && pos[i] <= 2 && p[i + 2] >= 1 && p[i + 2] <= 3 && pos[i + 2] >= 1 && pos[i + 2] <= 2);
            a.push(LRItem { prod: ProdIndex(p[i]), prod_len: 2, rn_len: None, position: pos[i], follow: RefCell::new(Follow::bits(1)) });
            b.push(LRItem { prod: ProdIndex(p[i + 2]), prod_len: 2, rn_len: None, position: pos[i + 2], follow: RefCell::new(Follow::bits(2)) });
            i += 1;
        }
        let same = p[0] == p[2] && pos[0] == pos[2] && p[1] == p[3] && pos[1] == pos[3];
        kani::assume(!same);
        let mut old_state = LRState { items: ItemVec(a), g: PhantomData };
        let new_state = LRState { items: ItemVec(b), g: PhantomData };
        let tt = if kani::any() { TableType::LALR } else { TableType::LALR_PAGER };
        let merged = LRTable::merge_state(&Settings { table_type: tt }, &mut old_state, &new_state);
        assert!(!merged, "C04 states with different item cores are never merged");
        assert!(old_state.items.0[0].follow.borrow().0 == 1 && old_state.items.0[1].follow.borrow().0 == 1);
        kani::cover!(p[0] == p[3] && p[1] == p[2] && pos[0] == pos[3] && pos[1] == pos[2], "same core in a different order");
    }

    #[kani::proof]
    #[kani::unwind(5)]
    pub fn kern_twin_must_fail() {
        let _ = merge::<2>(TableType::LALR);
        assert!(false, "twin: reachable end of harness");
    }
}
