//! C03 (index decoding): `SPPFTree`, `Parent`, `Tree`, `Forest` and the forest iterators of
//! rustemo/src/glr/gss.rs - everything from `enum SPPFTree` to the end of the file, byte for
//! byte, minus `Tree::build`/`build_inner` (which need the GSS head type) - compiled with
//! `Rc` -> a leaked-reference stand-in and `Vec`/`VecDeque` -> fixed-capacity vectors, so that
//! CBMC sees plain arrays instead of reference-counted heap cells. Shapes are concrete SPPF
//! templates; the tree indexes are symbolic.
use rustemo::{Context, Input, Position, SourceSpan, State, Token};
use std::cell::RefCell;
use std::collections::HashSet;
use std::fmt::Debug;

type Vec<T> = crate::avec::AVec<T, 4>;
type VecDeque<T> = crate::avec::AVec<T, 4>;
macro_rules! vec { ($($t:tt)*) => { $crate::avec!($($t)*) } }
pub type NodeIndex = usize;

/// `std::rc::Rc` stand-in: a leaked heap cell behind a raw pointer (no counting, never freed).
pub struct Rc<T>(*const T);
impl<T> Rc<T> {
    pub fn new(x: T) -> Self {
        Rc(Box::into_raw(Box::new(x)))
    }
    #[allow(clippy::should_implement_trait)]
    pub fn clone(this: &Self) -> Self {
        Rc(this.0)
    }
    pub fn ptr_eq(a: &Self, b: &Self) -> bool {
        std::ptr::eq(a.0, b.0)
    }
}
impl<T> Clone for Rc<T> {
    fn clone(&self) -> Self {
        Rc(self.0)
    }
}
impl<T> Copy for Rc<T> {}
impl<T> std::ops::Deref for Rc<T> {
    type Target = T;
    fn deref(&self) -> &T {
        // SAFETY: the cell was leaked by `new` and is never freed.
        unsafe { &*self.0 }
    }
}
impl<T: Debug> Debug for Rc<T> {
    fn fmt(&self, f: &mut std::fmt::Formatter<'_>) -> std::fmt::Result {
        (**self).fmt(f)
    }
}
impl<T: PartialEq> PartialEq for Rc<T> {
    fn eq(&self, o: &Self) -> bool {
        **self == **o
    }
}
impl<T: Eq> Eq for Rc<T> {}
impl<T: std::hash::Hash> std::hash::Hash for Rc<T> {
    fn hash<H: std::hash::Hasher>(&self, h: &mut H) {
        (**self).hash(h)
    }
}

include!("../gen/gss_forest.rs");

#[cfg(kani)]
pub mod proofs {
    use super::*;
    type Node = Rc<SPPFTree<'static, str, u8, u8>>;
    type Par = Rc<Parent<'static, str, u8, u8>>;

    fn data() -> TreeData<'static, str> {
        TreeData { span: SourceSpan::new(Position::from(0), Position::from(1)), layout: None }
    }
    fn term(kind: u8) -> Node {
        Rc::new(SPPFTree::Term { token: Token { kind, value: "a", span: SourceSpan::new(Position::from(0), Position::from(1)) }, data: data() })
    }
    fn par1(a: Node) -> Par {
        let mut v = Vec::new();
        v.push(a);
        Rc::new(Parent::new(0, 1, v))
    }
    fn par2(a: Node, b: Node) -> Par {
        let mut v = Vec::new();
        v.push(a);
        v.push(b);
        Rc::new(Parent::new(0, 1, v))
    }
    fn par3(a: Node, b: Node, c: Node) -> Par {
        let mut v = Vec::new();
        v.push(a);
        v.push(b);
        v.push(c);
        Rc::new(Parent::new(0, 1, v))
    }
    fn nonterm(prod: u8, children: &[Par]) -> Node {
        let mut v = VecDeque::new();
        let mut i = 0;
        while i < children.len() {
            v.push(children[i]);
            i += 1;
        }
        Rc::new(SPPFTree::NonTerm { prod, data: data(), children: RefCell::new(v) })
    }
    /// an alternative recognisable by its production id, with n terminal children
    fn alt(prod: u8, n: usize) -> Node {
        let mut v = VecDeque::new();
        let mut i = 0;
        while i < n {
            v.push(par1(term(1)));
            i += 1;
        }
        Rc::new(SPPFTree::NonTerm { prod, data: data(), children: RefCell::new(v) })
    }
    fn prod_of(t: &Tree<'static, str, u8, u8>) -> u64 {
        match &*t.root {
            SPPFTree::NonTerm { prod, .. } => *prod as u64 + 1,
            SPPFTree::Term { .. } => 0,
            SPPFTree::Empty => 99,
        }
    }
    /// signature of a tree: the production chosen at the root and at each child (the
    /// templates make alternatives distinguishable at this depth; going deeper would make
    /// CBMC expand the recursive `solutions()` over symbolic node pointers)
    fn sig(t: &Tree<'static, str, u8, u8>) -> u64 {
        let mut s = prod_of(t);
        let ch = t.children();
        let mut i = 0;
        while i < ch.len() {
            s = s * 16 + prod_of(&ch[i]);
            i += 1;
        }
        s
    }

    fn forest(roots: &[Node]) -> Forest<'static, str, u8, u8> {
        let mut v = Vec::new();
        let mut i = 0;
        while i < roots.len() {
            v.push(roots[i]);
            i += 1;
        }
        Forest::new(v)
    }

    fn check(f: &Forest<'static, str, u8, u8>, count: usize) {
        assert!(f.solutions() == count, "C03 number of solutions = number of trees of the template");
        let i: usize = kani::any();
        let j: usize = kani::any();
        let ti = f.get_tree(i);
        assert!(ti.is_some() == (i < count), "C03 get_tree(i) is Some iff i < solutions()");
        if i < count && j < count && i != j {
            let tj = f.get_tree(j).unwrap();
            assert!(sig(ti.as_ref().unwrap()) != sig(&tj), "C03 different indexes give different trees");
        }
        // iteration stops exactly at solutions()
        let mut n = 0;
        let mut it = f.iter();
        while let Some(_t) = it.next() {
            n += 1;
            assert!(n <= count, "C03 iteration yields no more than solutions() trees");
        }
        assert!(n == count, "C03 iteration yields exactly solutions() trees");
        kani::cover!(i + 1 == count, "last tree");
        kani::cover!(i >= count, "index beyond the number of solutions");
    }

    #[kani::proof]
    #[kani::unwind(6)]
    pub fn forest_single() {
        let root = nonterm(9, &[par1(alt(1, 1)), par1(term(2))]);
        check(&forest(&[root]), 1);
    }
    #[kani::proof]
    #[kani::unwind(6)]
    pub fn forest_packed3() {
        let root = nonterm(9, &[par3(alt(1, 0), alt(2, 1), alt(3, 2))]);
        check(&forest(&[root]), 3);
    }
    #[kani::proof]
    #[kani::unwind(9)]
    pub fn forest_2x3() {
        let root = nonterm(9, &[par2(alt(1, 0), alt(2, 1)), par3(alt(3, 0), alt(4, 1), alt(5, 2))]);
        check(&forest(&[root]), 6);
    }
    #[kani::proof]
    #[kani::unwind(8)]
    pub fn forest_roots_2_3() {
        let r1 = nonterm(8, &[par2(alt(1, 0), alt(2, 1))]);
        let r2 = nonterm(9, &[par1(term(1)), par3(alt(3, 0), alt(4, 1), alt(5, 2))]);
        check(&forest(&[r1, r2]), 5);
    }
    #[kani::proof]
    #[kani::unwind(6)]
    pub fn forest_nested() {
        let deep = nonterm(3, &[par1(term(1)), par2(alt(4, 1), alt(5, 2))]);
        let root = nonterm(9, &[par2(alt(1, 0), deep)]);
        check(&forest(&[root]), 3);
    }
    #[kani::proof]
    #[kani::unwind(6)]
    pub fn forest_empty() {
        let e = forest(&[]);
        assert!(e.solutions() == 0 && e.is_empty());
        let i: usize = kani::any();
        assert!(e.get_tree(i).is_none(), "C03 an empty forest yields no tree");
        assert!(e.get_first_tree().is_none());
    }
    #[kani::proof]
    #[kani::unwind(9)]
    pub fn forest_into_iter() {
        let root = nonterm(9, &[par2(alt(1, 0), alt(2, 1)), par3(alt(3, 0), alt(4, 1), alt(5, 2))]);
        let f = forest(&[root]);
        let mut n = 0;
        for _t in f {
            n += 1;
        }
        assert!(n == 6, "C03 into_iter yields exactly solutions() trees");
    }
    #[kani::proof]
    #[kani::unwind(6)]
    pub fn forest_twin_must_fail() {
        let root = nonterm(9, &[par3(alt(1, 0), alt(2, 1), alt(3, 2))]);
        check(&forest(&[root]), 3);
        assert!(false, "twin: reachable end of harness");
    }
}
