//! C16: the token-value actions of the grammar language (`rustemo_actions.rs`):
//! `int_const`, `bool_const`, `annotation`, `regex_term`, `str_const`, whole functions
//! sliced verbatim. They run on every token of the corresponding kind of any grammar text,
//! so they must not panic on any text the terminal's regex accepts.

#[derive(Clone, Copy, Debug, PartialEq)]
pub struct Span(pub usize, pub usize);
pub struct Ctx {
    pub span: Span,
}
impl Ctx {
    pub fn span(&self) -> Span {
        self.span
    }
}
pub struct Token<'i> {
    pub value: &'i str,
}
#[derive(Debug, Clone, PartialEq)]
pub struct ValSpan<T> {
    pub value: T,
    pub span: Option<Span>,
}
impl<T> ValSpan<T> {
    pub fn new(value: T, span: Option<Span>) -> Self {
        Self { value, span }
    }
}
pub type Name = ValSpan<String>;
pub type RegexTerm = ValSpan<String>;
pub type IntConst = ValSpan<u32>;
pub type BoolConst = ValSpan<bool>;
pub type StrConst = ValSpan<String>;
pub type Annotation = ValSpan<String>;

include!("../gen/tokval_fns.rs");

#[cfg(kani)]
pub mod proofs {
    use super::*;

    fn ctx() -> Ctx {
        Ctx { span: Span(kani::any(), kani::any()) }
    }

    macro_rules! int_const_h {
        ($name:ident, $n:expr, $unwind:expr) => {
            /// IntConst: /\d+/ restricted to ASCII digits, exactly N digits.
            #[kani::proof]
            #[kani::unwind($unwind)]
            pub fn $name() {
                let buf: [u8; $n] = kani::any();
                let mut i = 0;
                while i < $n {
                    kani::assume(buf[i] >= b'0' && buf[i] <= b'9');
                    i += 1;
                }
                let s = std::str::from_utf8(&buf).unwrap();
                let c = ctx();
                let v = int_const(&c, Token { value: s });
                // value = the decimal number written
                let mut want: u64 = 0;
                let mut i = 0;
                while i < $n {
                    want = want * 10 + (buf[i] - b'0') as u64;
                    i += 1;
                }
                assert!(v.value as u64 == want, "C09 integer constant = the number written");
                assert!(v.span == Some(c.span));
                kani::cover!(buf[0] == b'9', "leading nine");
            }
        };
    }
    int_const_h!(int_const_1, 1, 4);
    int_const_h!(int_const_3, 3, 6);
    int_const_h!(int_const_9, 9, 12);
    // region of finding C16/int-overflow: ten digits can exceed u32
    int_const_h!(int_const_10, 10, 13);

    /// BoolConst: /true|false/
    #[kani::proof]
    #[kani::unwind(8)]
    pub fn bool_const_h() {
        let t: bool = kani::any();
        let c = ctx();
        let v = bool_const(&c, Token { value: if t { "true" } else { "false" } });
        assert!(v.value == t);
        assert!(v.span == Some(c.span));
    }

    /// Annotation: /@[a-zA-Z0-9_]+/ - the value is the text after '@'.
    #[kani::proof]
    #[kani::unwind(8)]
    pub fn annotation_h() {
        let mut buf: [u8; 4] = kani::any();
        buf[0] = b'@';
        let n: usize = kani::any();
        kani::assume(n >= 2 && n <= 4);
        let mut i = 1;
        while i < 4 {
            let b = buf[i];
            kani::assume(b == b'_' || (b >= b'0' && b <= b'9') || (b >= b'a' && b <= b'z') || (b >= b'A' && b <= b'Z'));
            i += 1;
        }
        let s = std::str::from_utf8(&buf[..n]).unwrap();
        let c = ctx();
        let v = annotation(&c, Token { value: s });
        assert!(v.value.len() == n - 1, "annotation value = text after @");
        std::mem::forget(v);
    }

    /// RegexTerm: /\/(\\.|[^\/\\])*\// - arbitrary UTF-8 body of <= 3 bytes between slashes
    /// obeying the escape rule; no panic (slicing off the slashes is on char boundaries).
    #[kani::proof]
    #[kani::unwind(9)]
    pub fn regex_term_h() {
        let mut buf: [u8; 5] = kani::any();
        let n: usize = kani::any();
        kani::assume(n >= 2 && n <= 5);
        buf[0] = b'/';
        buf[n - 1] = b'/';
        let r = std::str::from_utf8(&buf[..n]);
        kani::assume(r.is_ok());
        let s = r.unwrap();
        // body: no unescaped '/' and no dangling backslash
        let mut i = 1;
        while i + 1 < n {
            if buf[i] == b'\\' {
                kani::assume(i + 2 < n);
                i += 2;
            } else {
                kani::assume(buf[i] != b'/');
                i += 1;
            }
        }
        let c = ctx();
        let v = regex_term(&c, Token { value: s });
        assert!(v.value.len() <= n - 2);
        kani::cover!(n == 5 && buf[1] == b'\\' && buf[2] == b'/', "escaped slash");
        std::mem::forget(v);
    }

    #[kani::proof]
    #[kani::unwind(6)]
    pub fn tokval_twin_must_fail() {
        let buf: [u8; 3] = kani::any();
        kani::assume(buf[0] >= b'0' && buf[0] <= b'9' && buf[1] >= b'0' && buf[1] <= b'9' && buf[2] >= b'0' && buf[2] <= b'9');
        let s = std::str::from_utf8(&buf).unwrap();
        let v = int_const(&ctx(), Token { value: s });
        assert!(false, "twin: reachable end of harness");
    }
}
