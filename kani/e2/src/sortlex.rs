//! C06: lexical disambiguation chain.
//!   A. `LRTable::sort_terminals` (body sliced verbatim)            -> (terminal, finish) list
//!   B. the real, unsliced `StringLexer::next_tokens` / `TokenIterator` of the runtime crate
//!   C. the token selection of `LRParser::next_token` (sliced) and of
//!      `GlrParser::find_lookaheads` (sliced)
//! run in one harness: sort -> lex -> select, compared with the order of strategies of the
//! statement. Recognizers are arbitrary prefix matchers (DESIGN §3, recognizer model).
use rustemo::{Context, Input, LRContext, Lexer, Position, State as StateT, StringLexer, Token, TokenRecognizer};

type Vec<T> = crate::avec::AVec<T, 6>;
macro_rules! vec { ($($t:tt)*) => { $crate::avec!($($t)*) } }
macro_rules! log { ($($t:tt)*) => {} }

// ---- runtime-side parameter types ----------------------------------------------------
#[derive(Default, Clone, Copy, PartialEq, Eq, PartialOrd, Ord, Debug)]
pub struct St(pub u8);
impl StateT for St {
    fn default_layout() -> Option<Self> {
        None
    }
}
impl From<St> for usize {
    fn from(s: St) -> usize {
        s.0 as usize
    }
}
#[derive(Default, Clone, Copy, PartialEq, Eq, PartialOrd, Ord, Debug)]
pub struct Tk(pub u8);
impl From<Tk> for usize {
    fn from(s: Tk) -> usize {
        s.0 as usize
    }
}
/// Arbitrary prefix matcher.
pub struct Rec(pub Option<usize>);
impl<'i> TokenRecognizer<'i> for Rec {
    fn recognize(&self, input: &'i str) -> Option<&'i str> {
        match self.0 {
            Some(l) => Some(&input[..l]),
            None => None,
        }
    }
}

// ---- compiler-side stand-ins (names as used by the sliced source) --------------------
pub const NT: usize = 5; // STOP + up to 4 terminals

#[derive(Debug, Clone, Copy, PartialEq, Eq)]
pub struct TermIndex(pub usize);
pub struct Len(pub usize);
impl Len {
    pub fn len(&self) -> usize {
        self.0
    }
}
pub struct Lit(pub Len);
impl AsRef<Len> for Lit {
    fn as_ref(&self) -> &Len {
        &self.0
    }
}
pub enum Recognizer {
    StrConst(Lit),
    RegexTerm(()),
}
pub struct Terminal {
    pub idx: TermIndex,
    pub prio: u32,
    pub recognizer: Option<Recognizer>,
}
pub struct Grammar {
    pub terms: [Terminal; NT],
}
impl Grammar {
    pub fn term_by_index(&self, i: TermIndex) -> &Terminal {
        &self.terms[i.0]
    }
}
pub struct Settings {
    pub lexical_disamb_most_specific: bool,
}
/// A cell of `TermVec<Vec<Action>>`: only asked `is_empty()`.
pub struct Cell(pub bool);
impl Cell {
    pub fn is_empty(&self) -> bool {
        !self.0
    }
}
pub struct LRState {
    pub actions: [Cell; NT],
    pub sorted_terminals: Vec<(TermIndex, bool)>,
}
pub struct LRTable<'a> {
    pub states: Vec<LRState>,
    pub grammar: &'a Grammar,
    pub settings: &'a Settings,
}
impl<'a> LRTable<'a> {
    pub fn sort_terminals(&mut self) {
        include!("../gen/sort_terminals_body.rs")
    }
}

// ---- runtime-side slices ---------------------------------------------------------------
pub trait Dlike {
    fn longest_match() -> bool;
    fn grammar_order() -> bool;
}
pub struct Cfg<const LM: bool, const GO: bool>;
impl<const LM: bool, const GO: bool> Dlike for Cfg<LM, GO> {
    fn longest_match() -> bool {
        LM
    }
    fn grammar_order() -> bool {
        GO
    }
}

/// `LRParser::next_token`: the statement `let next_token = if D::longest_match() {..} else {..};`
pub fn lr_select<'i, D: Dlike>(mut next_tokens: Box<dyn Iterator<Item = Token<'i, str, Tk>> + 'i>) -> Option<Token<'i, str, Tk>> {
    include!("../gen/lr_select.rs")
}

/// `GlrParser::find_lookaheads`: the block `if !tokens.is_empty() { .. return tokens; }`
pub fn glr_select<'i, D: Dlike>(mut tokens: Vec<Token<'i, str, Tk>>) -> Vec<Token<'i, str, Tk>> {
    include!("../gen/glr_select.rs")
}

// ---- the order of strategies of the statement --------------------------------------------
/// `kind[i]`: 0 = regex, l > 0 = string recognizer of length l. `m[i]`: match length.
/// Returns the surviving candidates as a bitmask over terminals 0..n (grammar order).
pub fn survivors(n: usize, kind: &[usize; 4], prio: &[u32; 4], m: &[Option<usize>; 4], most_specific: bool, longest: bool, grammar_order: bool) -> u8 {
    let mut cand = [false; 4];
    let mut any = false;
    let mut i = 0;
    while i < n {
        cand[i] = m[i].is_some();
        any |= cand[i];
        i += 1;
    }
    if !any {
        return 0;
    }
    // 1. highest terminal priority among the matching ones
    let mut maxp = 0;
    i = 0;
    while i < n {
        if cand[i] && prio[i] > maxp {
            maxp = prio[i];
        }
        i += 1;
    }
    i = 0;
    while i < n {
        if cand[i] && prio[i] != maxp {
            cand[i] = false;
        }
        i += 1;
    }
    // 2. most specific: the longest matching string recognizer over any regex
    if most_specific {
        let mut best = 0;
        i = 0;
        while i < n {
            if cand[i] && kind[i] > best {
                best = kind[i];
            }
            i += 1;
        }
        if best > 0 {
            i = 0;
            while i < n {
                if cand[i] && kind[i] != best {
                    cand[i] = false;
                }
                i += 1;
            }
        }
    }
    // 3. longest match
    if longest {
        let mut maxl = 0;
        i = 0;
        while i < n {
            if cand[i] && m[i].unwrap() > maxl {
                maxl = m[i].unwrap();
            }
            i += 1;
        }
        i = 0;
        while i < n {
            if cand[i] && m[i].unwrap() != maxl {
                cand[i] = false;
            }
            i += 1;
        }
    }
    // 4. grammar order
    let mut mask = 0u8;
    i = 0;
    while i < n {
        if cand[i] {
            mask |= 1 << i;
            if grammar_order {
                break;
            }
        }
        i += 1;
    }
    mask
}

#[cfg(kani)]
pub mod proofs {
    use super::*;

    pub struct Setup {
        pub kind: [usize; 4],
        pub prio: [u32; 4],
        pub m: [Option<usize>; 4],
        pub ms: bool,
    }

    /// Draws n terminals, runs the sliced sort and the real lexer; returns the token
    /// iterator of the real `StringLexer`.
    fn sort_and_lex<const N: usize>(s: &Setup, skip_ws: bool) -> Box<dyn Iterator<Item = Token<'static, str, Tk>>> {
        let rec = |k: usize| {
            if k == 0 {
                Some(Recognizer::RegexTerm(()))
            } else {
                Some(Recognizer::StrConst(Lit(Len(k))))
            }
        };
        let g = Grammar {
            terms: [
                Terminal { idx: TermIndex(0), prio: 100, recognizer: None },
                Terminal { idx: TermIndex(1), prio: s.prio[0], recognizer: rec(s.kind[0]) },
                Terminal { idx: TermIndex(2), prio: s.prio[1], recognizer: rec(s.kind[1]) },
                Terminal { idx: TermIndex(3), prio: s.prio[2], recognizer: rec(s.kind[2]) },
                Terminal { idx: TermIndex(4), prio: s.prio[3], recognizer: rec(s.kind[3]) },
            ],
        };
        let settings = Settings { lexical_disamb_most_specific: s.ms };
        let mut states: Vec<LRState> = Vec::new();
        states.push(LRState { actions: [Cell(false), Cell(N >= 1), Cell(N >= 2), Cell(N >= 3), Cell(N >= 4)], sorted_terminals: Vec::new() });
        let mut t = LRTable { states, grammar: &g, settings: &settings };
        t.sort_terminals();
        let sorted = &t.states[0].sorted_terminals;
        assert!(sorted.len() == N, "C06 every terminal with an action is tried");
        // hand the result to the real lexer through the API generated code uses
        let mut exp: std::vec::Vec<(Tk, bool)> = std::vec::Vec::with_capacity(N);
        let mut i = 0;
        while i < N {
            exp.push((Tk(sorted[i].0 .0 as u8), sorted[i].1));
            i += 1;
        }
        let recs: &'static [Rec; NT] = Box::leak(Box::new([Rec(None), Rec(s.m[0]), Rec(s.m[1]), Rec(s.m[2]), Rec(s.m[3])]));
        let lexer: StringLexer<LRContext<str, St, Tk>, St, Tk, Rec, NT> = StringLexer::new(skip_ws, recs);
        let mut ctx: LRContext<str, St, Tk> = LRContext::new(Position::new(0, 1, 0));
        lexer.next_tokens(&mut ctx, "abcd", exp)
    }

    fn any_setup<const N: usize>() -> Setup {
        let mut s = Setup { kind: [0; 4], prio: [0; 4], m: [None; 4], ms: kani::any() };
        let mut i = 0;
        while i < N {
            s.kind[i] = kani::any();
            s.prio[i] = kani::any();
            kani::assume(s.kind[i] <= 3 && s.prio[i] <= 99);
            if kani::any() {
                let l: usize = kani::any();
                kani::assume(l >= 1 && l <= 4);
                // a string recognizer matches exactly its literal or not at all
                if s.kind[i] > 0 {
                    kani::assume(l == s.kind[i]);
                }
                s.m[i] = Some(l);
            }
            i += 1;
        }
        // two different string literals of equal length cannot both match at one position
        let mut a = 0;
        while a < N {
            let mut b = a + 1;
            while b < N {
                if s.kind[a] > 0 && s.kind[a] == s.kind[b] {
                    kani::assume(!(s.m[a].is_some() && s.m[b].is_some()));
                }
                b += 1;
            }
            a += 1;
        }
        s
    }

    /// `TAIL`: false = outside the region of finding C06/group-tail (a higher-priority
    /// group whose last member does not match while an earlier member does, and a lower
    /// group matches), true = inside it.
    fn in_tail_region<const N: usize>(s: &Setup) -> bool {
        // exists i<j<k (in sorted order) ... expressed on priorities: some matching terminal a,
        // some non-matching terminal b with prio[b]==prio[a], some matching terminal c with
        // prio[c] < prio[a].
        let mut r = false;
        let mut a = 0;
        while a < N {
            let mut b = 0;
            while b < N {
                let mut c = 0;
                while c < N {
                    if s.m[a].is_some() && s.m[b].is_none() && s.prio[a] == s.prio[b] && s.m[c].is_some() && s.prio[c] < s.prio[a] {
                        r = true;
                    }
                    c += 1;
                }
                b += 1;
            }
            a += 1;
        }
        r
    }

    pub struct Facts {
        pub want: u8,
        pub ms: bool,
        pub str0: bool,
        pub regex1: bool,
        pub m0: bool,
        pub m1: bool,
        pub m2: bool,
    }

    fn lr<const N: usize, const LM: bool>(tail: bool) -> Facts {
        let s = any_setup::<N>();
        kani::assume(in_tail_region::<N>(&s) == tail);
        let it = sort_and_lex::<N>(&s, false);
        let got = lr_select::<Cfg<LM, true>>(it);
        let want = survivors(N, &s.kind, &s.prio, &s.m, s.ms, LM, true);
        match &got {
            Some(t) => {
                assert!(t.kind.0 >= 1 && (t.kind.0 as usize) <= N, "C06 token kind is one of the expected terminals");
                assert!(want == 1 << (t.kind.0 - 1), "C06 LR acts on the token the documented order selects");
                assert!(Some(t.value.len()) == s.m[(t.kind.0 - 1) as usize], "C06 token value is what its recognizer matched");
            }
            None => assert!(want == 0, "C06 a token is produced iff some expected terminal matches"),
        }
        std::mem::forget(got);
        Facts { want, ms: s.ms, str0: s.kind[0] > 0, regex1: s.kind[1] == 0, m0: s.m[0].is_some(), m1: s.m[1].is_some(), m2: s.m[2].is_some() }
    }

    fn glr<const N: usize, const LM: bool, const GO: bool>(tail: bool) -> Facts {
        let s = any_setup::<N>();
        kani::assume(in_tail_region::<N>(&s) == tail);
        let it = sort_and_lex::<N>(&s, false);
        let tokens: Vec<Token<'static, str, Tk>> = it.collect();
        let got = glr_select::<Cfg<LM, GO>>(tokens);
        let want = survivors(N, &s.kind, &s.prio, &s.m, s.ms, LM, GO);
        let mut mask = 0u8;
        let mut i = 0;
        while i < got.len() {
            let k = got[i].kind.0;
            assert!(k >= 1 && (k as usize) <= N, "C06 token kind is one of the expected terminals");
            assert!(mask & (1 << (k - 1)) == 0, "C06 no token is returned twice");
            mask |= 1 << (k - 1);
            assert!(Some(got[i].value.len()) == s.m[(k - 1) as usize], "C06 token value is what its recognizer matched");
            i += 1;
        }
        assert!(mask == want, "C06 GLR keeps exactly the tokens surviving the enabled strategies");
        std::mem::forget(got);
        Facts { want, ms: s.ms, str0: s.kind[0] > 0, regex1: s.kind[1] == 0, m0: s.m[0].is_some(), m1: s.m[1].is_some(), m2: s.m[2].is_some() }
    }

    macro_rules! covers {
        (lr, false, $f:ident) => {
            kani::cover!($f.want != 0 && $f.ms && $f.str0 && $f.m1 && $f.regex1, "string beats matching regex candidate");
            kani::cover!($f.want == 2 && $f.m0, "second terminal wins over a matching first");
            kani::cover!($f.want == 0, "nothing matches");
        };
        (lr, true, $f:ident) => {
            kani::cover!($f.want == 1 && !$f.m1 && $f.m2, "lower-priority match after an unmatched group member is suppressed");
        };
        (glr, false, false, $f:ident) => {
            kani::cover!($f.want.count_ones() >= 2, "two tokens survive (GLR follows both)");
            kani::cover!($f.want.count_ones() == 1 && $f.m0 && $f.m1, "two match, one survives");
        };
        (glr, false, true, $f:ident) => {
            kani::cover!($f.want.count_ones() == 1 && $f.m0 && $f.m1, "two match, one survives");
        };
        (glr, true, $go:tt, $f:ident) => {
            kani::cover!($f.want == 1 && !$f.m1 && $f.m2, "lower-priority match after an unmatched group member is suppressed");
        };
    }

    macro_rules! lrh {
        ($name:ident, $n:expr, $lm:expr, $tail:tt) => {
            #[kani::proof]
            #[kani::unwind(8)]
            #[kani::stub(std::env::var_os, crate::no_env)]
            pub fn $name() {
                let f = lr::<$n, $lm>($tail);
                covers!(lr, $tail, f);
            }
        };
    }
    macro_rules! glrh {
        ($name:ident, $n:expr, $lm:expr, $go:tt, $tail:tt) => {
            #[kani::proof]
            #[kani::unwind(8)]
            #[kani::stub(std::env::var_os, crate::no_env)]
            pub fn $name() {
                let f = glr::<$n, $lm, $go>($tail);
                covers!(glr, $tail, $go, f);
            }
        };
    }
    lrh!(lr3_longest, 3, true, false);
    lrh!(lr3_first, 3, false, false);
    lrh!(lr4_longest, 4, true, false);
    lrh!(lr4_first, 4, false, false);
    glrh!(glr3_lm_go, 3, true, true, false);
    glrh!(glr3_lm, 3, true, false, false);
    glrh!(glr3_go, 3, false, true, false);
    glrh!(glr3_none, 3, false, false, false);
    glrh!(glr4_lm, 4, true, false, false);
    glrh!(glr4_none, 4, false, false, false);
    // region of finding C06/group-tail
    lrh!(lr3_longest_tail, 3, true, true);
    lrh!(lr3_first_tail, 3, false, true);
    glrh!(glr3_lm_tail, 3, true, false, true);
    glrh!(glr3_none_tail, 3, false, false, true);

    /// A. the sort alone against an independent reference (stable order by
    /// prio*1000+len descending; finish = string && most_specific, or priority-group end).
    fn sort_ref<const N: usize>() {
        let s = any_setup::<N>();
        let rec = |k: usize| if k == 0 { Some(Recognizer::RegexTerm(())) } else { Some(Recognizer::StrConst(Lit(Len(k)))) };
        let g = Grammar {
            terms: [
                Terminal { idx: TermIndex(0), prio: 100, recognizer: None },
                Terminal { idx: TermIndex(1), prio: s.prio[0], recognizer: rec(s.kind[0]) },
                Terminal { idx: TermIndex(2), prio: s.prio[1], recognizer: rec(s.kind[1]) },
                Terminal { idx: TermIndex(3), prio: s.prio[2], recognizer: rec(s.kind[2]) },
                Terminal { idx: TermIndex(4), prio: s.prio[3], recognizer: rec(s.kind[3]) },
            ],
        };
        let settings = Settings { lexical_disamb_most_specific: s.ms };
        let present: [bool; 4] = kani::any();
        let mut states: Vec<LRState> = Vec::new();
        states.push(LRState {
            actions: [Cell(kani::any()), Cell(N >= 1 && present[0]), Cell(N >= 2 && present[1]), Cell(N >= 3 && present[2]), Cell(N >= 4 && present[3])],
            sorted_terminals: Vec::new(),
        });
        let stop_present = !states[0].actions[0].is_empty();
        let mut t = LRTable { states, grammar: &g, settings: &settings };
        t.sort_terminals();
        let sorted = &t.states[0].sorted_terminals;
        // reference: selection sort on (key desc, index asc)
        let key = |i: usize| -> u32 {
            if i == 0 {
                100 * 1000
            } else {
                s.prio[i - 1] * 1000 + if s.ms { s.kind[i - 1] as u32 } else { 0 }
            }
        };
        let pres = |i: usize| if i == 0 { stop_present } else { i <= N && present[i - 1] };
        let mut used = [false; NT];
        let mut k = 0;
        let mut total = 0;
        let mut i = 0;
        while i < NT {
            if pres(i) {
                total += 1;
            }
            i += 1;
        }
        assert!(sorted.len() == total, "C06 exactly the terminals with an action are listed");
        while k < total {
            let mut best: Option<usize> = None;
            let mut i = 0;
            while i < NT {
                if pres(i) && !used[i] {
                    match best {
                        Some(b) if key(b) >= key(i) => {}
                        _ => best = Some(i),
                    }
                }
                i += 1;
            }
            let b = best.unwrap();
            used[b] = true;
            assert!(sorted[k].0 .0 == b, "C06 try order = priority, then (most specific) string length, then grammar order");
            k += 1;
        }
        // finish flags
        let mut k = 0;
        while k < total {
            let i = sorted[k].0 .0;
            let is_str = i > 0 && s.kind[i - 1] > 0;
            let prio_of = |i: usize| if i == 0 { 100 } else { s.prio[i - 1] };
            let group_end = k + 1 < total && prio_of(sorted[k + 1].0 .0) != prio_of(i);
            assert!(sorted[k].1 == ((s.ms && is_str) || group_end), "C06 finish flag = most-specific string, or end of a priority group");
            k += 1;
        }
        kani::cover!(total >= 3 && sorted[0].0 .0 == 3, "third terminal sorted first");
        kani::cover!(total >= 2 && sorted[0].1 && !s.ms, "group end flag without most specific");
    }
    #[kani::proof]
    #[kani::unwind(8)]
    pub fn sort3() {
        sort_ref::<3>();
    }
    #[kani::proof]
    #[kani::unwind(8)]
    pub fn sort4() {
        sort_ref::<4>();
    }

    #[kani::proof]
    #[kani::unwind(8)]
    #[kani::stub(std::env::var_os, crate::no_env)]
    pub fn lex_twin_must_fail() {
        let _ = lr::<3, true>(false);
        assert!(false, "twin: reachable end of harness");
    }
}
