//! C05 (and C02's "resolution only removes candidates", C16's "resolving never aborts"):
//! the conflict-resolution step of `LRTable::calculate_reductions`, i.e. the body of
//! `for follow_symbol in item.follow.borrow().iter() { .. }`, sliced verbatim.
use std::cmp::Ordering;
// The slice's `Vec` is the heap-free fixed-capacity stand-in (see avec.rs).
type Vec<T> = crate::avec::AVec<T, 6>;

// ---- stand-ins: exactly the names the slice mentions --------------------------------
#[derive(Debug, Clone, Copy, PartialEq, Eq)]
pub struct StateIndex(pub usize);
#[derive(Debug, Clone, Copy, PartialEq, Eq)]
pub struct ProdIndex(pub usize);
#[derive(Debug, Clone, Copy, PartialEq, Eq, PartialOrd, Ord)]
pub struct TermIndex(pub usize);
#[derive(Debug, Clone, Copy, PartialEq, Eq)]
pub struct SymbolIndex(pub usize);

#[derive(Debug, Clone, Copy, PartialEq, Eq, Default)]
pub enum Action {
    Shift(StateIndex),
    Reduce(ProdIndex, usize),
    #[default]
    Accept,
}

#[derive(Debug, PartialEq, Eq, Clone, Copy)]
pub enum Associativity {
    None,
    Left,
    Right,
}
pub type Priority = u32;
pub const DEFAULT_PRIORITY: u32 = 10;

#[derive(Clone, Copy, PartialEq, Eq)]
pub enum ParserAlgo {
    LR,
    GLR,
}

/// `prod.rhs` is only asked `is_empty()` / `len()`.
pub struct Rhs(pub usize);
impl Rhs {
    pub fn is_empty(&self) -> bool {
        self.0 == 0
    }
    pub fn len(&self) -> usize {
        self.0
    }
}

pub struct Production {
    pub prio: Priority,
    pub assoc: Associativity,
    pub nops: bool,
    pub nopse: bool,
    pub rhs: Rhs,
}
pub struct Terminal {
    pub idx: TermIndex,
    pub assoc: Associativity,
}
pub struct Settings {
    pub prefer_shifts: bool,
    pub prefer_shifts_over_empty: bool,
    pub parser_algo: ParserAlgo,
}
pub struct Prods(pub [Production; 3]);
impl std::ops::Index<ProdIndex> for Prods {
    type Output = Production;
    fn index(&self, i: ProdIndex) -> &Production {
        &self.0[i.0]
    }
}
pub struct Grammar {
    pub productions: Prods,
    pub term: Terminal,
}
impl Grammar {
    pub fn symbol_to_term(&self, _s: SymbolIndex) -> &Terminal {
        &self.term
    }
}
/// `TermVec<Vec<Action>>` with one cell.
pub struct Cells(pub [Vec<Action>; 1]);
impl std::ops::Index<TermIndex> for Cells {
    type Output = Vec<Action>;
    fn index(&self, _i: TermIndex) -> &Vec<Action> {
        &self.0[0]
    }
}
impl std::ops::IndexMut<TermIndex> for Cells {
    fn index_mut(&mut self, _i: TermIndex) -> &mut Vec<Action> {
        &mut self.0[0]
    }
}
/// `BTreeMap<TermIndex, Priority>` asked for one key.
pub struct MaxPrior(pub Priority);
impl std::ops::Index<&TermIndex> for MaxPrior {
    type Output = Priority;
    fn index(&self, _i: &TermIndex) -> &Priority {
        &self.0
    }
}
pub struct State {
    pub actions: Cells,
    pub max_prior_for_term: MaxPrior,
}
pub struct Item {
    pub prod: ProdIndex,
    pub prod_len: usize,
    pub position: usize,
}
pub struct Table<'a> {
    pub grammar: &'a Grammar,
    pub settings: &'a Settings,
}

impl<'a> Table<'a> {
    /// One execution of the sliced loop body.
    pub fn step(&self, state: &mut State, item: &Item, prod: &Production, new_reduce: Action, follow_symbol: &SymbolIndex) {
        include!("../gen/calc_reductions_body.rs");
    }
}

// ---- the documented rule, as a decision table ---------------------------------------
#[derive(Clone, Copy)]
pub struct ProdIn {
    pub prio: u32,
    pub assoc: Associativity,
    pub nops: bool,
    pub nopse: bool,
    pub rhs_len: usize,
}

#[derive(Clone, Copy, PartialEq, Eq, Debug)]
pub struct Kept {
    pub shift: bool,
    pub q: [bool; 2],
    pub new: bool,
}

/// `shift`: 0 none, 1 Shift, 2 Accept. `q_len[i]`: reduction length of existing reduce i.
pub fn reference(
    shift: u8,
    shift_prio: u32,
    term_assoc: Associativity,
    p: ProdIn,
    nq: usize,
    q_prio: u32,
    q_len: [usize; 2],
    s: &Settings,
) -> Kept {
    let mut k = Kept { shift: shift != 0, q: [nq > 0, nq > 1], new: true };
    if shift != 0 {
        let sp = if shift == 2 { DEFAULT_PRIORITY } else { shift_prio };
        if p.prio < sp {
            k.new = false;
        } else if p.prio > sp {
            k.shift = false;
        } else {
            let assoc = if term_assoc != Associativity::None { term_assoc } else { p.assoc };
            match assoc {
                Associativity::Left => k.shift = false,
                Associativity::Right => k.new = false,
                Associativity::None => {
                    let empty = p.rhs_len == 0;
                    let prefer = (empty && s.prefer_shifts_over_empty && !p.nopse) || (!empty && s.prefer_shifts && !p.nops);
                    if prefer {
                        k.new = false;
                    }
                }
            }
        }
    }
    if k.new && nq > 0 {
        if p.prio < q_prio {
            k.new = false;
        } else if p.prio > q_prio {
            k.q = [false, false];
        } else if s.parser_algo == ParserAlgo::LR {
            // documented in the source: for LR, non-empty reductions are preferred over
            // empty ones; a tie among reductions of the same kind stays a conflict.
            let any_nonempty = p.rhs_len > 0 || (0..nq).any(|i| q_len[i] > 0);
            if any_nonempty {
                for i in 0..nq {
                    if q_len[i] == 0 {
                        k.q[i] = false;
                    }
                }
                if p.rhs_len == 0 {
                    k.new = false;
                }
            }
        }
    }
    k
}

#[cfg(kani)]
pub mod proofs {
    use super::*;

    fn any_assoc() -> Associativity {
        let a: u8 = kani::any();
        kani::assume(a < 3);
        match a {
            0 => Associativity::None,
            1 => Associativity::Left,
            _ => Associativity::Right,
        }
    }

    /// Runs one resolution step from the given cell (whose shape is described by `shift`
    /// and `nq`) and compares with the decision table. `region`: 0 = everything except
    /// the regions below, 1 = terminal-level associativity given, 2 = LR tie among empty
    /// reductions only (kept in separate harnesses so that each can be listed as a
    /// finding without hiding anything else).
    fn run(cell: Vec<Action>, shift: u8, nq: usize, region: u8, q_len: [usize; 2]) -> Kept {
        let pp: u32 = kani::any();
        let ps: u32 = kani::any();
        let pq: u32 = kani::any();
        kani::assume(pp <= 99 && ps <= 99 && pq <= 99);
        let p = ProdIn { prio: pp, assoc: any_assoc(), nops: kani::any(), nopse: kani::any(), rhs_len: if kani::any() { 2 } else { 0 } };
        let ta = any_assoc();
        let s = Settings {
            prefer_shifts: kani::any(),
            prefer_shifts_over_empty: kani::any(),
            parser_algo: if kani::any() { ParserAlgo::LR } else { ParserAlgo::GLR },
        };
        // position: full length for LR; possibly right-nulled (shorter) for GLR
        let position: usize = kani::any();
        kani::assume(position <= p.rhs_len);
        if s.parser_algo == ParserAlgo::LR {
            kani::assume(position == p.rhs_len);
        }
        // Invariant of reachable cells (DESIGN §5 C05): entries that coexist were left
        // unresolved by this same rule, hence have equal priority; a shift coexists with a
        // reduction only if no associativity decided between them.
        let sp = if shift == 2 { DEFAULT_PRIORITY } else { ps };
        if shift != 0 && nq > 0 {
            kani::assume(pq == sp);
            kani::assume(ta == Associativity::None);
        }
        let term_assoc_given = ta != Associativity::None;
        let all_q_empty = (nq < 1 || q_len[0] == 0) && (nq < 2 || q_len[1] == 0);
        let empty_tie = s.parser_algo == ParserAlgo::LR && nq > 0 && pp == pq && p.rhs_len == 0 && all_q_empty;
        match region {
            0 => kani::assume(!term_assoc_given && !empty_tie),
            1 => kani::assume(term_assoc_given && !empty_tie),
            _ => kani::assume(empty_tie && !term_assoc_given),
        }

        let mk = |prio, assoc, nops, nopse, len| Production { prio, assoc, nops, nopse, rhs: Rhs(len) };
        let g = Grammar {
            productions: Prods([
                mk(p.prio, p.assoc, p.nops, p.nopse, p.rhs_len),
                mk(pq, Associativity::None, false, false, 2),
                mk(pq, Associativity::None, false, false, 1),
            ]),
            term: Terminal { idx: TermIndex(0), assoc: ta },
        };
        let t = Table { grammar: &g, settings: &s };
        let mut st = State { actions: Cells([cell]), max_prior_for_term: MaxPrior(ps) };
        let item = Item { prod: ProdIndex(0), prod_len: p.rhs_len, position };
        let new_reduce = Action::Reduce(item.prod, item.position);
        t.step(&mut st, &item, &g.productions.0[0], new_reduce.clone(), &SymbolIndex(0));

        let cell = &st.actions.0[0];
        let want = reference(shift, ps, ta, p, nq, pq, q_len, &s);
        let mut has_shift = false;
        let mut has_q0 = false;
        let mut has_q1 = false;
        let mut has_new = false;
        let mut i = 0;
        while i < cell.len() {
            let a = cell[i];
            let ok = match a {
                Action::Shift(s7) => { has_shift = true; shift == 1 && s7.0 == 7 }
                Action::Accept => { has_shift = true; shift == 2 }
                Action::Reduce(ProdIndex(0), l) => { has_new = true; l == position }
                Action::Reduce(ProdIndex(1), l) => { has_q0 = true; nq > 0 && l == q_len[0] }
                Action::Reduce(ProdIndex(2), l) => { has_q1 = true; nq > 1 && l == q_len[1] }
                _ => false,
            };
            // C02: resolution only removes candidates, never rewrites them
            assert!(ok, "C02 every kept action is one of the candidates, unchanged");
            i += 1;
        }
        assert!(has_shift == want.shift, "C05 shift kept iff the documented rule keeps it");
        assert!(has_new == want.new, "C05 new reduction kept iff the documented rule keeps it");
        assert!(has_q0 == want.q[0], "C05 existing reduction 1 kept iff the documented rule keeps it");
        assert!(has_q1 == want.q[1], "C05 existing reduction 2 kept iff the documented rule keeps it");
        let expect_len = want.shift as usize + want.new as usize + want.q[0] as usize + want.q[1] as usize;
        assert!(cell.len() == expect_len, "C02 no action is duplicated or invented");
        want
    }

    macro_rules! cov {
        (sw, $w:ident) => { kani::cover!($w.shift && !$w.new, "shift wins"); };
        (rw, $w:ident) => { kani::cover!(!$w.shift && $w.new, "reduce wins"); };
        (ck, $w:ident) => { kani::cover!($w.shift && $w.new, "shift/reduce conflict kept"); };
        (nr, $w:ident) => { kani::cover!($w.new && !$w.q[0], "new reduction replaces an existing one"); };
        (rr, $w:ident) => { kani::cover!($w.new && $w.q[0], "reduce/reduce kept"); };
        (qw, $w:ident) => { kani::cover!(!$w.new && $w.q[0], "existing reduction wins"); };
        (end, $w:ident) => { kani::cover!(true, "end of harness reachable"); };
    }

    macro_rules! shape {
        ($name:ident, [$($a:expr),*], $shift:expr, $nq:expr, $region:expr, [$($c:ident),*]) => {
            #[kani::proof]
            #[kani::unwind(8)]
            pub fn $name() {
                let q_len: [usize; 2] = [if kani::any() { 2 } else { 0 }, if kani::any() { 1 } else { 0 }];
                let mut cell: Vec<Action> = Vec::new();
                $( cell.push($a(q_len)); )*
                let w = run(cell, $shift, $nq, $region, q_len);
                $( cov!($c, w); )*
            }
        };
    }
    fn sh(_q: [usize; 2]) -> Action { Action::Shift(StateIndex(7)) }
    fn ac(_q: [usize; 2]) -> Action { Action::Accept }
    fn q0(q: [usize; 2]) -> Action { Action::Reduce(ProdIndex(1), q[0]) }
    fn q1(q: [usize; 2]) -> Action { Action::Reduce(ProdIndex(2), q[1]) }

    shape!(res_empty_cell, [], 0, 0, 0, [end]);
    shape!(res_shift, [sh], 1, 0, 0, [sw, rw, ck]);
    shape!(res_accept, [ac], 2, 0, 0, [sw, rw, ck]);
    shape!(res_reduce, [q0], 0, 1, 0, [nr, rr, qw]);
    shape!(res_reduce2, [q0, q1], 0, 2, 0, [nr, rr, qw]);
    shape!(res_shift_reduce, [sh, q0], 1, 1, 0, [sw, rw, ck, nr, rr]);
    shape!(res_shift_reduce2, [sh, q0, q1], 1, 2, 0, [sw, rw, ck, nr, rr]);
    shape!(res_accept_reduce, [ac, q0], 2, 1, 0, [sw, rw, ck, nr, rr]);
    // regions of the findings recorded in DESIGN §7 (separate so that each can be listed)
    shape!(res_shift_termassoc, [sh], 1, 0, 1, [sw, rw]);
    shape!(res_accept_termassoc, [ac], 2, 0, 1, [sw, rw]);
    shape!(res_reduce_emptytie, [q0], 0, 1, 2, [rr]);
    shape!(res_reduce2_emptytie, [q0, q1], 0, 2, 2, [rr]);
    shape!(res_shift_reduce_emptytie, [sh, q0], 1, 1, 2, [sw, rw, ck]);

    /// Vacuity twin: the same set-up must be able to reach the end.
    #[kani::proof]
    #[kani::unwind(8)]
    pub fn res_twin_must_fail() {
        let mut cell: Vec<Action> = Vec::new();
        cell.push(sh([0, 0]));
        let _ = run(cell, 1, 0, 0, [0, 0]);
        assert!(false, "twin: reachable end of harness");
    }
}
