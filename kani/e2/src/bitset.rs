//! `BTreeSet<SymbolIndex>` stand-in for slices: an 8-bit bitset offering the method names
//! the sliced code uses. Element type is generic over anything convertible to a bit index.
