//! C05: `LRState::group_per_next_symbol` (whole function, sliced verbatim): groups the items
//! by the symbol after the dot and computes `max_prior_for_term` - the priority a SHIFT of a
//! terminal gets when it competes with a reduction: the MAXIMUM priority of the productions
//! in which that terminal is the next symbol in this state.
use std::cmp;
use std::marker::PhantomData;

type Vec<T> = crate::avec::AVec<T, 4>;

#[derive(Debug, Clone, Copy, PartialEq, Eq, PartialOrd, Ord, Default)]
pub struct SymbolIndex(pub usize);
#[derive(Debug, Clone, Copy, PartialEq, Eq, PartialOrd, Ord, Default)]
pub struct TermIndex(pub usize);
#[derive(Debug, Clone, Copy, PartialEq, Eq, PartialOrd, Ord, Default)]
pub struct ProdIndex(pub usize);
#[derive(Debug, Clone, Copy, PartialEq, Eq, PartialOrd, Ord, Default)]
pub struct ItemIndex(pub usize);
impl From<usize> for ItemIndex {
    fn from(i: usize) -> Self {
        ItemIndex(i)
    }
}
pub type Priority = u32;

/// `BTreeMap<K, V>` stand-in: an association list offering the entry API the slice uses.
pub struct BTreeMap<K, V> {
    pub kv: crate::avec::AVec<(K, V), 4>,
}
pub enum Entry<'a, K, V> {
    Occupied(&'a mut V),
    Vacant(&'a mut crate::avec::AVec<(K, V), 4>, K),
}
impl<K: Copy + PartialEq, V> BTreeMap<K, V> {
    pub fn new() -> Self {
        BTreeMap { kv: crate::avec::AVec::new() }
    }
    pub fn entry(&mut self, k: K) -> Entry<'_, K, V> {
        let mut found: Option<usize> = None;
        let mut i = 0;
        while i < self.kv.len() {
            if self.kv[i].0 == k {
                found = Some(i);
            }
            i += 1;
        }
        match found {
            Some(i) => Entry::Occupied(&mut self.kv.as_mut_slice()[i].1),
            None => Entry::Vacant(&mut self.kv, k),
        }
    }
    pub fn get(&self, k: &K) -> Option<&V> {
        let mut i = 0;
        while i < self.kv.len() {
            if self.kv[i].0 == *k {
                return Some(&self.kv[i].1);
            }
            i += 1;
        }
        None
    }
    pub fn len(&self) -> usize {
        self.kv.len()
    }
}
impl<'a, K, V> Entry<'a, K, V> {
    pub fn or_default(self) -> &'a mut V
    where
        V: Default,
    {
        self.or_insert(V::default())
    }
    pub fn or_insert(self, v: V) -> &'a mut V {
        match self {
            Entry::Occupied(r) => r,
            Entry::Vacant(m, k) => {
                m.push((k, v));
                let n = m.len();
                &mut m.as_mut_slice()[n - 1].1
            }
        }
    }
    pub fn and_modify<F: FnOnce(&mut V)>(self, f: F) -> Self {
        match self {
            Entry::Occupied(r) => {
                f(r);
                Entry::Occupied(r)
            }
            e => e,
        }
    }
}

pub struct Production {
    pub prio: Priority,
    pub rhs: [SymbolIndex; 2],
}
pub struct Prods(pub [Production; 3]);
impl std::ops::Index<ProdIndex> for Prods {
    type Output = Production;
    fn index(&self, i: ProdIndex) -> &Production {
        &self.0[i.0]
    }
}
pub const NTERM: usize = 3;
pub struct Grammar {
    pub productions: Prods,
}
impl Grammar {
    pub fn is_term(&self, s: SymbolIndex) -> bool {
        s.0 < NTERM
    }
    pub fn symbol_to_term_index(&self, s: SymbolIndex) -> TermIndex {
        TermIndex(s.0)
    }
}
pub struct LRItem {
    pub prod: ProdIndex,
    pub position: usize,
}
impl LRItem {
    pub fn symbol_at_position(&self, grammar: &Grammar) -> Option<SymbolIndex> {
        grammar.productions.0.get(self.prod.0)?.rhs.get(self.position).copied()
    }
}
pub struct ItemVec<T>(pub Vec<T>);
impl<T> ItemVec<T> {
    pub fn iter(&self) -> std::slice::Iter<'_, T> {
        self.0.as_slice().iter()
    }
}
pub struct LRState<'g> {
    pub grammar: &'g Grammar,
    pub items: ItemVec<LRItem>,
    pub max_prior_for_term: BTreeMap<TermIndex, Priority>,
}
include!("../gen/group_per_next_symbol_fn.rs"); // `impl<'g> LRState<'g> { <fn, verbatim> }`

#[cfg(kani)]
pub mod proofs {
    use super::*;

    #[kani::proof]
    #[kani::unwind(6)]
    pub fn group_3_items() {
        let prio: [u32; 3] = kani::any();
        let rhs: [[usize; 2]; 3] = kani::any();
        let mut i = 0;
        while i < 3 {
            kani::assume(prio[i] <= 99 && rhs[i][0] < 5 && rhs[i][1] < 5);
            i += 1;
        }
        let mk = |i: usize| Production { prio: prio[i], rhs: [SymbolIndex(rhs[i][0]), SymbolIndex(rhs[i][1])] };
        let g = Grammar { productions: Prods([mk(0), mk(1), mk(2)]) };
        let ip: [usize; 3] = kani::any();
        let ipos: [usize; 3] = kani::any();
        let mut items = Vec::new();
        let mut i = 0;
        while i < 3 {
            kani::assume(ip[i] < 3 && ipos[i] <= 2);
            items.push(LRItem { prod: ProdIndex(ip[i]), position: ipos[i] });
            i += 1;
        }
        let mut st = LRState { grammar: &g, items: ItemVec(items), max_prior_for_term: BTreeMap::new() };
        let groups = st.group_per_next_symbol();
        // reference
        let mut t = 0;
        while t < NTERM {
            let mut want: Option<u32> = None;
            let mut i = 0;
            while i < 3 {
                if ipos[i] < 2 && rhs[ip[i]][ipos[i]] == t {
                    want = Some(match want {
                        Some(w) if w >= prio[ip[i]] => w,
                        _ => prio[ip[i]],
                    });
                }
                i += 1;
            }
            assert!(st.max_prior_for_term.get(&TermIndex(t)).copied() == want, "C05 shift priority of a terminal = max priority of the productions shifting it in this state");
            t += 1;
        }
        // every item with a symbol after the dot is in exactly the group of that symbol, in order
        let mut s = 0;
        while s < 5 {
            let mut k = 0;
            let mut i = 0;
            let grp = groups.get(&SymbolIndex(s));
            while i < 3 {
                if ipos[i] < 2 && rhs[ip[i]][ipos[i]] == s {
                    assert!(grp.is_some() && grp.unwrap().len() > k && grp.unwrap()[k] == ItemIndex(i), "C01 items are grouped by the symbol after the dot, in item order");
                    k += 1;
                }
                i += 1;
            }
            assert!(grp.map(|g| g.len()).unwrap_or(0) == k, "C01 no item is grouped under a symbol it does not have after the dot");
            s += 1;
        }
        kani::cover!(ipos[0] < 2 && ipos[1] < 2 && rhs[ip[0]][ipos[0]] == rhs[ip[1]][ipos[1]] && rhs[ip[0]][ipos[0]] < NTERM && prio[ip[0]] > prio[ip[1]], "one terminal after the dot in two items of different priority, higher first");
        kani::cover!(ipos[0] < 2 && ipos[1] < 2 && rhs[ip[0]][ipos[0]] == rhs[ip[1]][ipos[1]] && rhs[ip[0]][ipos[0]] < NTERM && prio[ip[0]] < prio[ip[1]], "same, lower first");
        kani::cover!(ipos[0] == 2 && ipos[1] == 2 && ipos[2] == 2, "only completed items");
    }

    #[kani::proof]
    #[kani::unwind(6)]
    pub fn group_twin_must_fail() {
        let g = Grammar { productions: Prods([Production { prio: 1, rhs: [SymbolIndex(0), SymbolIndex(3)] }, Production { prio: 2, rhs: [SymbolIndex(0), SymbolIndex(1)] }, Production { prio: 3, rhs: [SymbolIndex(4), SymbolIndex(1)] }]) };
        let mut items = Vec::new();
        items.push(LRItem { prod: ProdIndex(0), position: 0 });
        items.push(LRItem { prod: ProdIndex(1), position: kani::any::<bool>() as usize });
        let mut st = LRState { grammar: &g, items: ItemVec(items), max_prior_for_term: BTreeMap::new() };
        let _ = st.group_per_next_symbol();
        assert!(false, "twin: reachable end of harness");
    }
}
