//! `StringLexer::next_tokens`: whitespace skipping and `TokenIterator` (C12, C13, C14, C15).
use crate::common::*;
use rustemo::{Context, Input, LRContext, Lexer, Position, SourceSpan, StringLexer, Token};

macro_rules! ws_skip {
    ($name:ident, $n:expr, $unwind:expr) => {
        /// C14/C12/C15: with whitespace skipping on, after `next_tokens` the layout is exactly
        /// the maximal whitespace prefix at the old position (None when empty), and the position
        /// has advanced by it (offset, line, column) - i.e. it points at the first non-layout
        /// byte. Arbitrary valid UTF-8 of at most N bytes, arbitrary char-boundary start.
        #[kani::proof]
        #[kani::unwind($unwind)]
        #[kani::stub(std::env::var_os, no_env)]
        pub fn $name() {
            let mut buf = [0u8; $n];
            let s: &str = any_str::<$n>(&mut buf);
            let p = any_pos_in(s);
            static RECS: [Rec; 1] = [Rec(None)];
            let lexer: StringLexer<Ctx, St, Tk, Rec, 1> = StringLexer::new(true, &RECS);
            let mut ctx: Ctx = LRContext::new(p);
            let stale: bool = kani::any();
            if stale {
                // a layout left over from an earlier step must not survive
                ctx.set_layout_ahead(Some(&s[..0]));
            }
            let it = lexer.next_tokens(&mut ctx, s, Vec::new());
            // reference: maximal whitespace prefix
            let mut wl = 0usize;
            for c in s[p.pos..].chars() {
                if c.is_whitespace() {
                    wl += c.len_utf8();
                } else {
                    break;
                }
            }
            let np = ctx.position();
            assert!(np.pos == p.pos + wl, "C14 position advances by exactly the whitespace prefix");
            assert!(s.is_char_boundary(np.pos), "C15 position stays on a char boundary");
            let want = ref_position_after(&s.as_bytes()[p.pos..p.pos + wl], p);
            assert!(np == want, "C12 line/column follow the skipped text");
            match ctx.layout_ahead() {
                Some(l) => {
                    assert!(wl > 0, "C14 no layout recorded when nothing is skipped");
                    assert!(l.len() == wl, "C14 layout is the whole whitespace prefix");
                    assert!(l.as_ptr() == s[p.pos..].as_ptr(), "C14 layout is the slice of the input at the old position");
                }
                None => assert!(wl == 0, "C14 skipped whitespace is recorded as layout"),
            }
            if np.pos < s.len() {
                let c = s[np.pos..].chars().next().unwrap();
                assert!(!c.is_whitespace(), "C12 position is the first non-layout char");
            }
            kani::cover!(wl >= 2 && np.pos < s.len(), "whitespace then text");
            kani::cover!(wl == 0 && stale, "stale layout cleared");
            kani::cover!(wl >= 2 && s.as_bytes()[p.pos] >= 0x80, "multi-byte whitespace");
            kani::cover!(wl >= 1 && s.as_bytes()[p.pos] == b'\n' && p.line_col.is_some(), "newline skipped");
            std::mem::forget(it);
        }
    };
}
// tiny bound (one multi-byte whitespace char such as U+00A0, or two ASCII ones)
ws_skip!(ws_skip_3, 3, 6);
ws_skip!(ws_skip_4, 4, 7);
ws_skip!(ws_skip_6, 6, 9);

macro_rules! token_iter {
    ($name:ident, $n:expr, $unwind:expr) => {
        /// C13/C15/C06: `TokenIterator` over three expected terminals with arbitrary-prefix
        /// recognizers on arbitrary UTF-8: every token's value is the very slice of the input at
        /// its span, the span starts at the lexing position and ends at position_after, tokens
        /// come in the expected order, and - the documented meaning of the finish flag
        /// (`LRState::sorted_terminals`) - no further terminal is tried after a flagged one once
        /// something has matched at this location.
        #[kani::proof]
        #[kani::unwind($unwind)]
        #[kani::stub(std::env::var_os, no_env)]
        pub fn $name() {
            let mut buf = [0u8; $n];
            let s: &str = any_str::<$n>(&mut buf);
            let p = any_pos_in(s);
            let m: [Option<usize>; 3] = kani::any();
            let fin: [bool; 3] = kani::any();
            for i in 0..3 {
                if let Some(l) = m[i] {
                    // contract of TokenRecognizer::recognize: a prefix of the remaining input
                    kani::assume(l <= s.len() - p.pos && s.is_char_boundary(p.pos + l));
                }
            }
            let recs: &'static [Rec; 4] = Box::leak(Box::new([Rec(None), Rec(m[0]), Rec(m[1]), Rec(m[2])]));
            let lexer: StringLexer<Ctx, St, Tk, Rec, 4> = StringLexer::new(false, recs);
            let mut ctx: Ctx = LRContext::new(p);
            let mut exp = Vec::with_capacity(3);
            exp.push((Tk(1), fin[0]));
            exp.push((Tk(2), fin[1]));
            exp.push((Tk(3), fin[2]));
            let mut it = lexer.next_tokens(&mut ctx, s, exp);
            assert!(ctx.position() == p, "C13 lexing without skipping does not move the position");
            assert!(ctx.layout_ahead().is_none());
            // Every token handed out belongs to a matching expected terminal, in the expected
            // order, and carries exactly what its recognizer matched. (Which matching terminals
            // are *skipped* is the finish-flag protocol between compiler and lexer; that the
            // resulting choice is the documented one is decided by the C06 chain harnesses.)
            let mut k = 0;
            let mut last_kind = 0u8;
            let mut j = 0;
            while j < 4 {
                match it.next() {
                    Some(t) => {
                        assert!(j < 3, "C06 no more tokens than expected terminals");
                        assert!(t.kind.0 > last_kind && t.kind.0 <= 3, "C06 tokens come in the order of the expected terminals, none twice");
                        last_kind = t.kind.0;
                        let l = m[(t.kind.0 - 1) as usize];
                        assert!(l.is_some(), "C06 a token only for a terminal whose recognizer matched");
                        let l = l.unwrap();
                        assert!(t.value.len() == l, "C13 the value is what the recognizer matched");
                        assert!(t.value.as_ptr() == s[p.pos..].as_ptr(), "C13 value is the very slice of the input");
                        assert!(t.span.start == p, "C13 span starts at the lexing position");
                        assert!(t.span.end == ref_position_after(&s.as_bytes()[p.pos..p.pos + l], p), "C13 span ends after the value");
                        assert!(&s[t.span.start.pos..t.span.end.pos] == t.value, "C13 value = input[span]");
                        k += 1;
                    }
                    None => break,
                }
                j += 1;
            }
            let any_match = m[0].is_some() || m[1].is_some() || m[2].is_some();
            assert!((k > 0) == any_match, "C06 a token is produced iff some expected terminal matches");
            if m[0].is_some() {
                // the first expected terminal is always tried first
                kani::cover!(k >= 1, "first terminal yields a token");
            }
            kani::cover!(k == 3, "three tokens at one position");
            kani::cover!(k == 1 && m[0].is_some() && m[1].is_some(), "finish flag stops the iteration");
            kani::cover!(m[0] == Some(0), "empty match");
            std::mem::forget(it);
        }
    };
}
token_iter!(token_iter_4, 4, 8);
token_iter!(token_iter_6, 6, 10);

/// Vacuity twin.
#[kani::proof]
#[kani::unwind(7)]
#[kani::stub(std::env::var_os, no_env)]
pub fn lexer_twin_must_fail() {
    let mut buf = [0u8; 4];
    let s: &str = any_str::<4>(&mut buf);
    let p = any_pos_in(s);
    static RECS: [Rec; 1] = [Rec(None)];
    let lexer: StringLexer<Ctx, St, Tk, Rec, 1> = StringLexer::new(true, &RECS);
    let mut ctx: Ctx = LRContext::new(p);
    let it = lexer.next_tokens(&mut ctx, s, Vec::new());
    std::mem::forget(it);
    assert!(false, "twin: reachable end of harness");
}
