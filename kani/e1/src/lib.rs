//! E1 — leaf harnesses on the real `rustemo` runtime crate, through its public API
//! (plus the feature-gated re-exports of `rustemo::verif`).
//!
//! Every harness is a `#[kani::proof]`; inputs are `kani::any()`, bounds are the
//! `#[kani::unwind]` values and the array sizes. See /verif/DESIGN.md §3 (E1).
#![allow(dead_code, unused_imports, unused_variables, unused_mut)]

pub mod common;
#[cfg(kani)]
pub mod h_input;
#[cfg(kani)]
pub mod h_lexer;
#[cfg(kani)]
pub mod h_builder;
#[cfg(kani)]
pub mod h_forest;
#[cfg(kani)]
pub mod h_error;
