//! Shared stand-in parameter types for the generic runtime API and the
//! environment stubs used by every E1 harness.
use rustemo::{
    Action, Builder, Context, Input, LRBuilder, LRContext, Lexer, ParserDefinition, Position,
    SourceSpan, State, StringLexer, Token, TokenRecognizer,
};

/// Parser state type (what generated code calls `State`).
#[derive(Default, Clone, Copy, PartialEq, Eq, PartialOrd, Ord, Debug)]
pub struct St(pub u8);
impl State for St {
    fn default_layout() -> Option<Self> {
        None
    }
}
impl From<St> for usize {
    fn from(s: St) -> usize {
        s.0 as usize
    }
}

/// Token kind type (generated `TokenKind`). `Tk(0)` is STOP, as in generated code
/// (`#[default] STOP`).
#[derive(Default, Clone, Copy, PartialEq, Eq, PartialOrd, Ord, Debug)]
pub struct Tk(pub u8);
impl From<Tk> for usize {
    fn from(s: Tk) -> usize {
        s.0 as usize
    }
}

/// Production kind type.
#[derive(Clone, Copy, Debug, PartialEq, Eq)]
pub struct P(pub u8);
/// Non-terminal kind type.
#[derive(Clone, Copy, Debug, PartialEq, Eq)]
pub struct Nt(pub u8);
impl From<P> for Nt {
    fn from(p: P) -> Nt {
        Nt(p.0)
    }
}

pub type Ctx<'i> = LRContext<'i, str, St, Tk>;

/// Recognizer model: an *arbitrary prefix matcher*. `Rec(Some(l))` matches the
/// first `l` bytes of whatever it is given, `Rec(None)` does not match. The
/// harness chooses `l` with `kani::any()` and assumes only the contract of
/// `TokenRecognizer::recognize` as generated recognizers implement it (the
/// result is a prefix of the remaining input that ends on a char boundary).
pub struct Rec(pub Option<usize>);
impl<'i> TokenRecognizer<'i> for Rec {
    fn recognize(&self, input: &'i str) -> Option<&'i str> {
        match self.0 {
            Some(l) => Some(&input[..l]),
            None => None,
        }
    }
}

/// `std::env::var_os` stub: the `log!` macro of the dev profile consults
/// `RUSTEMO_TRACE` on every call; tracing is not a subject of any property.
pub fn no_env<K: AsRef<std::ffi::OsStr>>(_k: K) -> Option<std::ffi::OsString> {
    None
}

/// `std::fmt::format` stub for harnesses where a message is built but not inspected.
pub fn no_fmt(_a: std::fmt::Arguments<'_>) -> String {
    String::new()
}

/// Draws an arbitrary valid UTF-8 string of at most `N` bytes.
#[cfg(kani)]
pub fn any_str<const N: usize>(buf: &mut [u8; N]) -> &str {
    *buf = kani::any();
    let len: usize = kani::any();
    kani::assume(len <= N);
    let r = std::str::from_utf8(&buf[..len]);
    kani::assume(r.is_ok());
    r.unwrap()
}

/// Draws an arbitrary position whose offset is a char boundary of `s` and whose
/// line/column are arbitrary small numbers (or absent).
#[cfg(kani)]
pub fn any_pos_in(s: &str) -> Position {
    let pos: usize = kani::any();
    kani::assume(pos <= s.len());
    kani::assume(s.is_char_boundary(pos));
    let with_lc: bool = kani::any();
    if with_lc {
        let line: usize = kani::any();
        let column: usize = kani::any();
        kani::assume(line >= 1 && line <= 1000 && column <= 1000);
        Position::new(pos, line, column)
    } else {
        Position::from(pos)
    }
}

/// Reference for the line/column law of the statement (C12/C13): the line
/// grows by the number of `\n` bytes, the column is the number of bytes after
/// the last `\n`, or the old column plus the length if there is none.
pub fn ref_position_after(s: &[u8], p: Position) -> Position {
    let mut newlines = 0usize;
    let mut after_last = 0usize;
    let mut seen = false;
    let mut i = 0;
    while i < s.len() {
        if s[i] == b'\n' {
            newlines += 1;
            after_last = 0;
            seen = true;
        } else {
            after_last += 1;
        }
        i += 1;
    }
    Position {
        pos: p.pos + s.len(),
        line_col: p.line_col.map(|lc| rustemo::LineColumn {
            line: lc.line + newlines,
            column: if seen { after_last } else { lc.column + s.len() },
        }),
    }
}
