//! `error::error_expected` through the feature-gated public wrapper (C12).
use crate::common::*;
use rustemo::{Context, Error, Input, LRContext, Position, SourceSpan};

macro_rules! error_expected_span {
    ($name:ident, $n:expr) => {
        /// C12: the error built for "expected .." carries the zero-width span at the context's
        /// position (offset, line, column) and the file name, and ignores the context's span
        /// (the span of the previously shifted token). `fmt::format` is stubbed: the message
        /// text is not a subject.
        #[kani::proof]
        #[kani::unwind(6)]
        #[kani::stub(std::fmt::format, no_fmt)]
        #[kani::stub(std::env::var_os, no_env)]
        pub fn $name() {
            let pos: usize = kani::any();
            let line: usize = kani::any();
            let col: usize = kani::any();
            kani::assume(pos <= 3 && line >= 1 && line <= 1000 && col <= 1000);
            let p = if kani::any() { Position::new(pos, line, col) } else { Position::from(pos) };
            let mut ctx: Ctx = LRContext::new(p);
            let a: usize = kani::any();
            let b: usize = kani::any();
            kani::assume(a <= b && b <= pos);
            ctx.set_span(SourceSpan::new(Position::from(a), Position::from(b)));
            let expected = [Tk(1), Tk(2), Tk(3)];
            let e = rustemo::verif::error_expected("abc", "f", &ctx, &expected[..$n]);
            match &e {
                Error::ParseError(pe) => {
                    let sp = pe.span.unwrap();
                    assert!(sp.start == p, "C12 error position is the lexing position");
                    assert!(sp.end == p, "C12 error span is zero-width");
                    assert!(pe.file.is_some(), "file name passed through");
                }
                _ => assert!(false, "a syntax error is a ParseError"),
            }
            kani::cover!(p.line_col.is_some() && a < pos, "line/column position, earlier context span");
            std::mem::forget(e);
        }
    };
}
error_expected_span!(error_expected_span_1, 1);
error_expected_span!(error_expected_span_2, 2);
