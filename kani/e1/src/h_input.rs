//! `<str as Input>` / `<[u8] as Input>` leaf functions (C12, C13, C15).
use crate::common::*;
use rustemo::{Input, LineColumn, Position, SourceSpan};

macro_rules! pos_after_law {
    ($name:ident, $n:expr, $unwind:expr) => {
        /// C12/C13: `position_after` obeys the line/column law on every valid UTF-8
        /// string of at most N bytes and every starting position.
        #[kani::proof]
        #[kani::unwind($unwind)]
        pub fn $name() {
            let mut buf = [0u8; $n];
            let s = any_str::<$n>(&mut buf);
            let pos: usize = kani::any();
            kani::assume(pos <= 1_000_000);
            let with_lc: bool = kani::any();
            let p = if with_lc {
                let line: usize = kani::any();
                let column: usize = kani::any();
                kani::assume(line >= 1 && line <= 1_000_000 && column <= 1_000_000);
                Position::new(pos, line, column)
            } else {
                Position::from(pos)
            };
            let got = s.position_after(p);
            let want = ref_position_after(s.as_bytes(), p);
            assert!(got.pos == want.pos, "offset advances by the byte length");
            match (got.line_col, want.line_col) {
                (Some(g), Some(w)) => {
                    assert!(g.line == w.line, "line = old line + number of newlines");
                    assert!(g.column == w.column, "column = bytes after the last newline");
                }
                (None, None) => {}
                _ => assert!(false, "line/column presence is preserved"),
            }
            // span_from is [position, position_after(position)]
            let sp = s.span_from(p);
            assert!(sp.start == p, "span_from starts at the given position");
            assert!(sp.end == got, "span_from ends at position_after");
            kani::cover!(with_lc && s.len() >= 2 && s.as_bytes()[0] == b'\n' && s.as_bytes()[s.len() - 1] != b'\n', "newline inside, text after it");
            kani::cover!(with_lc && s.len() == $n && s.as_bytes()[$n - 1] == b'\n', "ends with newline");
            kani::cover!(with_lc && s.len() >= 2 && s.as_bytes()[0] >= 0x80, "multi-byte char with line/column");
            kani::cover!(s.is_empty(), "empty string");
        }
    };
}
// tiny bound: stays tractable even if the code under test gets heavier (e.g. char-based
// iteration) - one multi-byte char or a newline plus a byte is enough to expose a wrong law
pos_after_law!(pos_after_law_2, 2, 4);
pos_after_law!(pos_after_law_3, 3, 5);
pos_after_law!(pos_after_law_4, 4, 6);
pos_after_law!(pos_after_law_6, 6, 8);
pos_after_law!(pos_after_law_8, 8, 10);

/// C13: absolute reading of the law. Starting from the start position of `str`
/// (offset 0, line 1, column 0), the position after a prefix has line = 1 + number
/// of newlines before the offset and column = distance in bytes from the line start.
macro_rules! pos_absolute {
    ($name:ident, $n:expr, $unwind:expr) => {
        #[kani::proof]
        #[kani::unwind($unwind)]
        pub fn $name() {
            let mut buf = [0u8; $n];
            let s = any_str::<$n>(&mut buf);
            let cut: usize = kani::any();
            kani::assume(cut <= s.len() && s.is_char_boundary(cut));
            // two-step: prefix, then the rest, must equal one step (composition)
            let start = <str as Input>::start_position();
            assert!(start.pos == 0 && start.line_col == Some(LineColumn { line: 1, column: 0 }));
            let mid = s[..cut].position_after(start);
            let end2 = s[cut..].position_after(mid);
            let end1 = s.position_after(start);
            assert!(end1 == end2, "position_after composes over concatenation");
            // absolute law at `mid`
            let bytes = s.as_bytes();
            let mut nl = 0usize;
            let mut line_start = 0usize;
            let mut i = 0;
            while i < cut {
                if bytes[i] == b'\n' {
                    nl += 1;
                    line_start = i + 1;
                }
                i += 1;
            }
            let lc = mid.line_col.unwrap();
            assert!(mid.pos == cut);
            assert!(lc.line == 1 + nl, "line = 1 + newlines before the offset");
            assert!(lc.column == cut - line_start, "column = bytes from the line start");
            kani::cover!(nl >= 2 && cut > line_start, "two newlines then text");
        }
    };
}
pos_absolute!(pos_absolute_3, 3, 5);
pos_absolute!(pos_absolute_4, 4, 6);
pos_absolute!(pos_absolute_6, 6, 8);

/// C13/C15: `[u8]` input: offset advances by the length, no line/column.
#[kani::proof]
#[kani::unwind(6)]
pub fn bytes_pos_after() {
    let buf: [u8; 4] = kani::any();
    let len: usize = kani::any();
    kani::assume(len <= 4);
    let s = &buf[..len];
    let pos: usize = kani::any();
    kani::assume(pos <= 1_000_000);
    let p = Position::from(pos);
    let got = <[u8] as Input>::position_after(s, p);
    assert!(got.pos == pos + len);
    assert!(got.line_col.is_none());
    let sp = <[u8] as Input>::span_from(s, p);
    assert!(sp.start == p && sp.end == got);
}

macro_rules! str_slice_total {
    ($name:ident, $n:expr, $unwind:expr) => {
        /// C15: `<str as Input>::slice` as the parsers call it (GLR layout: a non-empty range
        /// between two positions of the input, both on char boundaries) never panics and
        /// returns a substring starting at the range start. (Called on an empty tail with a
        /// non-zero start it does panic - `unwrap_or(range.start)` - but no caller does that;
        /// DESIGN §7, observations.)
        #[kani::proof]
        #[kani::unwind($unwind)]
        pub fn $name() {
            let mut buf = [0u8; $n];
            let s = any_str::<$n>(&mut buf);
            let a: usize = kani::any();
            let b: usize = kani::any();
            kani::assume(a < b && b <= s.len() && s.is_char_boundary(a) && s.is_char_boundary(b));
            let r = <str as Input>::slice(s, a..b);
            assert!(r.as_ptr() == s[a..].as_ptr(), "slice starts at the range start");
            assert!(r.len() <= s.len() - a);
            kani::cover!(s.as_bytes()[a] >= 0xE0, "multi-byte first char");
            kani::cover!(b == s.len() && a == 0 && s.len() == $n, "whole input");
        }
    };
}
str_slice_total!(str_slice_total_4, 4, 7);
str_slice_total!(str_slice_total_6, 6, 9);
