//! `TreeBuilder` / `SliceBuilder` through `LRBuilder::{shift_action, reduce_action}` and
//! `Builder::get_result` (C02, C13, C14, C15).
use crate::common::*;
use rustemo::{Builder, Context, Input, LRBuilder, LRContext, Position, SliceBuilder, SourceSpan, Token, TreeBuilder, TreeNode};

const INPUT: &str = "abcdefgh";

fn any_span() -> SourceSpan {
    let a: usize = kani::any();
    let b: usize = kani::any();
    kani::assume(a <= b && b <= 8);
    SourceSpan::new(Position::from(a), Position::from(b))
}

fn any_layout() -> Option<&'static str> {
    if kani::any() {
        let a: usize = kani::any();
        let b: usize = kani::any();
        kani::assume(a <= b && b <= 8);
        Some(&INPUT[a..b])
    } else {
        None
    }
}

/// Identity of a node, for the reference list model.
#[derive(Clone, Copy, PartialEq, Eq)]
struct Id {
    is_term: bool,
    kind_or_prod: u8,
    span: SourceSpan,
    layout_ptr: Option<(usize, usize)>,
}

fn lay(l: Option<&str>) -> Option<(usize, usize)> {
    l.map(|s| (s.as_ptr() as usize, s.len()))
}

fn id_of(n: &TreeNode<'static, str, P, Tk>) -> Id {
    match n {
        TreeNode::TermNode { token, layout } => Id { is_term: true, kind_or_prod: token.kind.0, span: token.span, layout_ptr: lay(*layout) },
        TreeNode::NonTermNode { prod, span, layout, .. } => Id { is_term: false, kind_or_prod: prod.0, span: *span, layout_ptr: lay(*layout) },
    }
}

type TB = TreeBuilder<'static, str, P, Tk>;

/// Pushes `k` leaves with arbitrary kinds/spans/layouts through `shift_action` and
/// checks that each leaf stores the token and the context's layout (C14).
fn shift_k(b: &mut TB, ids: &mut [Option<Id>; 5], k: usize) {
    let mut i = 0;
    while i < k {
        let mut ctx: Ctx = LRContext::new(Position::from(0));
        let span = any_span();
        let layout = any_layout();
        ctx.set_layout_ahead(layout);
        let kind = Tk(kani::any());
        let tok = Token { kind, value: &INPUT[span.start.pos..span.end.pos], span };
        <TB as LRBuilder<str, Ctx, St, P, Tk>>::shift_action(b, &ctx, tok);
        ids[i] = Some(Id { is_term: true, kind_or_prod: kind.0, span, layout_ptr: lay(layout) });
        i += 1;
    }
}

macro_rules! tree_reduce {
    ($name:ident, $k:expr, $len:expr) => {
        /// C02: `reduce_action(prod, len)` on a stack of K nodes leaves K-len+1 nodes; the new
        /// node carries the production and the context span, its children are exactly the
        /// previous top `len` nodes in order, its layout is the first child's (None when
        /// empty); the nodes below are untouched. C14: leaves keep token and layout.
        #[kani::proof]
        #[kani::unwind(8)]
        pub fn $name() {
            let mut b: TB = TreeBuilder::new();
            let mut ids: [Option<Id>; 5] = [None; 5];
            shift_k(&mut b, &mut ids, $k);
            // a first reduction so that the stack also holds a non-terminal node
            let inner: bool = kani::any();
            let mut k = $k;
            if inner && k >= 1 {
                let mut ctx: Ctx = LRContext::new(Position::from(0));
                let sp = any_span();
                ctx.set_span(sp);
                let pr = P(kani::any());
                <TB as LRBuilder<str, Ctx, St, P, Tk>>::reduce_action(&mut b, &ctx, pr, 1);
                let first = ids[k - 1].unwrap();
                ids[k - 1] = Some(Id { is_term: false, kind_or_prod: pr.0, span: sp, layout_ptr: first.layout_ptr });
            }
            let mut ctx: Ctx = LRContext::new(Position::from(0));
            let span = any_span();
            ctx.set_span(span);
            let prod = P(kani::any());
            <TB as LRBuilder<str, Ctx, St, P, Tk>>::reduce_action(&mut b, &ctx, prod, $len);
            // pop everything and compare with the list model
            let top = b.get_result();
            match &top {
                TreeNode::NonTermNode { prod: p2, span: s2, children, layout } => {
                    assert!(*p2 == prod, "C02 node carries the production reduced by");
                    assert!(*s2 == span, "C13 node carries the span of the reduction");
                    assert!(children.len() == $len, "C02 node has exactly prod_len children");
                    let mut j = 0;
                    while j < $len {
                        assert!(Some(id_of(&children[j])) == ids[$k - $len + j], "C02 children are the previous top nodes, in order");
                        j += 1;
                    }
                    if $len > 0 {
                        assert!(lay(*layout) == ids[$k - $len].unwrap().layout_ptr, "C14 layout of a node is its first child's");
                    } else {
                        assert!(layout.is_none(), "C14 an empty node has no layout");
                    }
                }
                _ => assert!(false, "C02 reduce pushes a non-terminal node"),
            }
            // nodes below are untouched, in order
            let mut r = $k - $len;
            while r > 0 {
                let n = b.get_result();
                assert!(Some(id_of(&n)) == ids[r - 1], "C02 nodes below the reduction are untouched");
                std::mem::forget(n);
                r -= 1;
            }
            kani::cover!(inner, "stack holds a non-terminal child");
            std::mem::forget(top);
            std::mem::forget(b);
        }
    };
}
tree_reduce!(tree_reduce_1_0, 1, 0);
tree_reduce!(tree_reduce_1_1, 1, 1);
tree_reduce!(tree_reduce_2_1, 2, 1);
tree_reduce!(tree_reduce_2_2, 2, 2);
tree_reduce!(tree_reduce_3_0, 3, 0);
tree_reduce!(tree_reduce_3_2, 3, 2);
tree_reduce!(tree_reduce_3_3, 3, 3);
tree_reduce!(tree_reduce_4_2, 4, 2);
tree_reduce!(tree_reduce_4_4, 4, 4);

/// C15: `reduce_action` with an empty result stack and prod_len 0 is fine (first action
/// of a parse can be an empty reduction).
#[kani::proof]
#[kani::unwind(4)]
pub fn tree_reduce_0_0() {
    let mut b: TB = TreeBuilder::new();
    let mut ctx: Ctx = LRContext::new(Position::from(0));
    let span = any_span();
    ctx.set_span(span);
    <TB as LRBuilder<str, Ctx, St, P, Tk>>::reduce_action(&mut b, &ctx, P(3), 0);
    let top = b.get_result();
    match &top {
        TreeNode::NonTermNode { prod, span: s2, children, layout } => {
            assert!(prod.0 == 3 && *s2 == span && children.is_empty() && layout.is_none());
        }
        _ => assert!(false),
    }
    std::mem::forget(top);
    std::mem::forget(b);
}

/// C14/C15: `SliceBuilder` (layout parser result): the slice saved on reduce is
/// `input[context.span()]`; arbitrary UTF-8 input, spans on char boundaries.
#[kani::proof]
#[kani::unwind(8)]
pub fn slice_builder_4() {
    let mut buf = [0u8; 4];
    let s: &str = any_str::<4>(&mut buf);
    let a = any_pos_in(s);
    let b = any_pos_in(s);
    kani::assume(a.pos <= b.pos);
    let mut sb: SliceBuilder<str> = SliceBuilder::new(s);
    let mut ctx: Ctx = LRContext::new(Position::from(0));
    assert!(sb.get_result().is_none(), "no slice before any reduction");
    ctx.set_span(SourceSpan::new(a, b));
    <SliceBuilder<str> as LRBuilder<str, Ctx, St, P, Tk>>::shift_action(&mut sb, &ctx, Token { kind: Tk(1), value: &s[a.pos..b.pos], span: SourceSpan::new(a, b) });
    assert!(sb.get_result().is_none(), "shift does not produce a slice");
    <SliceBuilder<str> as LRBuilder<str, Ctx, St, P, Tk>>::reduce_action(&mut sb, &ctx, P(0), 1);
    let r = sb.get_result().unwrap();
    assert!(r.len() == b.pos - a.pos);
    assert!(r.as_ptr() == s[a.pos..].as_ptr(), "C14 layout is the slice of the input at the reduced span");
    kani::cover!(r.len() >= 2, "non-trivial slice");
}

/// Vacuity twin.
#[kani::proof]
#[kani::unwind(8)]
pub fn builder_twin_must_fail() {
    let mut b: TB = TreeBuilder::new();
    let mut ids: [Option<Id>; 5] = [None; 5];
    shift_k(&mut b, &mut ids, 2);
    let mut ctx: Ctx = LRContext::new(Position::from(0));
    ctx.set_span(any_span());
    <TB as LRBuilder<str, Ctx, St, P, Tk>>::reduce_action(&mut b, &ctx, P(1), 2);
    let top = b.get_result();
    std::mem::forget(top);
    std::mem::forget(b);
    assert!(false, "twin: reachable end of harness");
}

/// C02: `get_result` hands over the node on TOP of the result stack (after a failed parse
/// earlier nodes may still be below it). Two leaves, one call; nothing else is dropped by
/// the harness.
#[kani::proof]
#[kani::unwind(4)]
pub fn get_result_top_of_2() {
    let mut b: TB = TreeBuilder::new();
    let mut ids: [Option<Id>; 5] = [None; 5];
    shift_k(&mut b, &mut ids, 2);
    let top = b.get_result();
    assert!(Some(id_of(&top)) == ids[1], "C02 the result is the node on top of the stack");
    std::mem::forget(top);
    std::mem::forget(b);
}
