//! placeholder
