//! `Forest::{solutions, get_tree, iter, into_iter}` / `Tree::children` on SPPFs built by
//! the harness (C03: index decoding). Shapes are concrete templates; the tree indexes
//! are symbolic.
use crate::common::*;
use petgraph::graph::NodeIndex;
use rustemo::verif::{Parent, SPPFTree, Tree, TreeData};
use rustemo::{Forest, Position, SourceSpan, Token};
use std::cell::RefCell;
use std::collections::VecDeque;
use std::rc::Rc;

type Node = Rc<SPPFTree<'static, str, P, Tk>>;
type Par = Rc<Parent<'static, str, P, Tk>>;

fn data() -> TreeData<'static, str> {
    TreeData { span: SourceSpan::new(Position::from(0), Position::from(1)), layout: None }
}
fn term(kind: u8) -> Node {
    Rc::new(SPPFTree::Term { token: Token { kind: Tk(kind), value: "a", span: SourceSpan::new(Position::from(0), Position::from(1)) }, data: data() })
}
fn par(alts: Vec<Node>) -> Par {
    Rc::new(Parent::new(NodeIndex::new(0), NodeIndex::new(1), alts))
}
fn nonterm(prod: u8, children: Vec<Par>) -> Node {
    Rc::new(SPPFTree::NonTerm { prod: P(prod), data: data(), children: RefCell::new(VecDeque::from(children)) })
}

/// Signature of a fully expanded tree: the sequence of productions / token kinds met in a
/// depth-first walk, folded into a number (every alternative of a template has its own
/// production id, so two trees are equal iff their signatures are).
fn sig(t: &Tree<'static, str, P, Tk>, depth: usize) -> u64 {
    // Tree has no accessor for its root; Debug would format. Walk children only and fold
    // the *number of children* and recursive signatures; alternatives differ in arity or in
    // the arity pattern below them (templates are built that way).
    let ch = t.children();
    let mut s: u64 = 1 + ch.len() as u64;
    if depth > 0 {
        let mut i = 0;
        while i < ch.len() {
            s = s * 7 + sig(&ch[i], depth - 1);
            i += 1;
        }
    }
    std::mem::forget(ch);
    s
}

/// An alternative recognisable by its arity: a non-terminal with `n` terminal children.
fn alt(n: usize) -> Node {
    let mut c = Vec::with_capacity(n);
    let mut i = 0;
    while i < n {
        c.push(par(vec![term(1)]));
        i += 1;
    }
    nonterm(n as u8, c)
}

fn check_forest(f: Forest<'static, str, P, Tk>, count: usize, depth: usize) {
    assert!(f.solutions() == count, "C03 number of solutions = number of trees of the template");
    let i: usize = kani::any();
    let j: usize = kani::any();
    let ti = f.get_tree(i);
    assert!(ti.is_some() == (i < count), "C03 get_tree(i) is Some iff i < solutions()");
    if i < count && j < count && i != j {
        let tj = f.get_tree(j).unwrap();
        assert!(sig(ti.as_ref().unwrap(), depth) != sig(&tj, depth), "C03 different indexes give different trees");
        std::mem::forget(tj);
    }
    kani::cover!(i + 1 == count && count > 1, "last tree");
    kani::cover!(i >= count, "index beyond the number of solutions");
    // iteration stops exactly at solutions()
    let mut n = 0;
    let mut it = f.iter();
    while let Some(t) = it.next() {
        n += 1;
        std::mem::forget(t);
        assert!(n <= count, "C03 iteration yields no more than solutions() trees");
    }
    assert!(n == count, "C03 iteration yields exactly solutions() trees");
    std::mem::forget(ti);
    std::mem::forget(f);
}

/// single unambiguous tree
#[kani::proof]
#[kani::unwind(5)]
pub fn forest_single() {
    let root = nonterm(9, vec![par(vec![alt(1)]), par(vec![term(2)])]);
    check_forest(Forest::new(vec![root]), 1, 2);
}

/// one child with three packed alternatives
#[kani::proof]
#[kani::unwind(6)]
pub fn forest_packed3() {
    let root = nonterm(9, vec![par(vec![alt(0), alt(1), alt(2)])]);
    check_forest(Forest::new(vec![root]), 3, 2);
}

/// two ambiguous children: 2 x 3 (mixed radix)
#[kani::proof]
#[kani::unwind(9)]
pub fn forest_2x3() {
    let root = nonterm(9, vec![par(vec![alt(0), alt(1)]), par(vec![alt(0), alt(1), alt(2)])]);
    check_forest(Forest::new(vec![root]), 6, 2);
}

/// several forest roots with different solution counts (2 + 3)
#[kani::proof]
#[kani::unwind(8)]
pub fn forest_roots_2_3() {
    let r1 = nonterm(8, vec![par(vec![alt(0), alt(1)])]);
    let r2 = nonterm(9, vec![par(vec![term(1)]), par(vec![alt(0), alt(1), alt(2)])]);
    check_forest(Forest::new(vec![r1, r2]), 5, 2);
}

/// nesting: an alternative that is itself ambiguous below (depth 3): 1 + 2
#[kani::proof]
#[kani::unwind(6)]
pub fn forest_nested() {
    let deep = nonterm(3, vec![par(vec![term(1)]), par(vec![alt(1), alt(2)])]);
    let root = nonterm(9, vec![par(vec![alt(0), deep])]);
    check_forest(Forest::new(vec![root]), 3, 3);
}

/// a right-nulled alternative (zero children) next to a non-empty one; empty forest
#[kani::proof]
#[kani::unwind(5)]
pub fn forest_empty_alt() {
    let root = nonterm(9, vec![par(vec![alt(0), alt(2)])]);
    check_forest(Forest::new(vec![root]), 2, 2);
    let e: Forest<'static, str, P, Tk> = Forest::new(vec![]);
    assert!(e.solutions() == 0 && e.is_empty());
    let i: usize = kani::any();
    assert!(e.get_tree(i).is_none(), "C03 an empty forest yields no tree");
    assert!(e.get_first_tree().is_none());
}

/// into_iter (consuming) yields exactly solutions() trees
#[kani::proof]
#[kani::unwind(9)]
pub fn forest_into_iter() {
    let root = nonterm(9, vec![par(vec![alt(0), alt(1)]), par(vec![alt(0), alt(1), alt(2)])]);
    let f = Forest::new(vec![root]);
    let mut n = 0;
    for t in f {
        n += 1;
        std::mem::forget(t);
    }
    assert!(n == 6, "C03 into_iter yields exactly solutions() trees");
}

/// Vacuity twin.
#[kani::proof]
#[kani::unwind(6)]
pub fn forest_twin_must_fail() {
    let root = nonterm(9, vec![par(vec![alt(0), alt(1), alt(2)])]);
    check_forest(Forest::new(vec![root]), 3, 2);
    assert!(false, "twin: reachable end of harness");
}
