//! E3 — generated code (C08). `gen/mods.rs` holds, unchanged, the parser modules the real
//! generator wrote for the corpus grammars (both table layouts), and `gen/harnesses.rs`
//! the per-module harnesses comparing every query of the generated `PARSER_DEFINITION`
//! with the plain-data dump of the table the compiler computed (dump hook).
#![allow(dead_code, unused_imports, unused_variables, unused_mut, unused_macros, unreachable_code, non_camel_case_types, unused_doc_comments)]
#![allow(clippy::all)]

pub mod mods {
    include!("../gen/mods.rs");
}
#[cfg(kani)]
pub mod proofs {
    use rustemo::{Action, ParserDefinition, State as StateT};
    /// Encodes an action as (kind, a, b) with the generated enums cast to their table index.
    macro_rules! enc {
        ($a:expr) => {
            match $a {
                Action::Shift(s) => (1usize, s as usize, 0usize),
                Action::Reduce(p, l) => (2usize, p as usize, l),
                Action::Accept => (3usize, 0usize, 0usize),
                Action::Error => (4usize, 0usize, 0usize),
            }
        };
    }
    include!("../gen/harnesses.rs");
}
