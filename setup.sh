#!/bin/bash
# Builds everything the checks need, offline, from files on disk only.
set -u
cd "$(dirname "$0")"
export CARGO_NET_OFFLINE=true
mkdir -p .work/slots .work/logs
python3 vlib/setup.py
