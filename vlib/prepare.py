"""Regenerates, from /repo's current working tree, everything a harness crate needs
before Kani runs: Cargo.lock copies, source slices (E2), generated modules (E3/E4)."""
import os
import shutil
import subprocess

import kani
import slicer
from slicer import SliceError

VERIF = kani.VERIF
REPO = slicer.REPO

TABLE = "rustemo-compiler/src/table/mod.rs"
LRPARSER = "rustemo/src/lr/parser.rs"
GLRPARSER = "rustemo/src/glr/parser.rs"
BUILDER = "rustemo-compiler/src/grammar/builder.rs"
ACTIONS = "rustemo-compiler/src/lang/rustemo_actions.rs"


def copy_lock(crate):
    dst = os.path.join(VERIF, "kani", crate, "Cargo.lock")
    src = os.path.join(REPO, "Cargo.lock")
    if os.path.exists(src):
        if not os.path.exists(dst) or open(dst).read() != open(src).read():
            shutil.copyfile(src, dst)


def e2_slices():
    t = slicer.read(TABLE)
    out = {}
    out["calc_reductions_body"] = (
        slicer.block_after(
            t,
            r"fn calculate_reductions\s*\(\s*&mut self\s*\)",
            r"for follow_symbol in item\s*\.\s*follow\s*\.\s*borrow\(\)\s*\.\s*iter\(\)",
            "calculate_reductions/for follow_symbol",
        ),
        TABLE,
    )
    return out


def prepare(crates, prop, tier, seed):
    res = {"slices": {}, "generated": {}, "assumptions": []}
    try:
        for c in crates:
            copy_lock(c)
        if "e2" in crates:
            res["slices"] = slicer.write_slices(os.path.join(VERIF, "kani", "e2", "gen"), e2_slices())
    except SliceError as e:
        res["error"] = str(e)
    return res
