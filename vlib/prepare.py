"""Regenerates, from /repo's current working tree, everything a harness crate needs
before Kani runs: Cargo.lock copies, source slices (E2), generated modules (E3/E4)."""
import os
import shutil
import subprocess

import kani
import slicer
from slicer import SliceError

VERIF = kani.VERIF
REPO = slicer.REPO

TABLE = "rustemo-compiler/src/table/mod.rs"
LRPARSER = "rustemo/src/lr/parser.rs"
GLRPARSER = "rustemo/src/glr/parser.rs"
BUILDER = "rustemo-compiler/src/grammar/builder.rs"
ACTIONS = "rustemo-compiler/src/lang/rustemo_actions.rs"


def copy_lock(crate):
    dst = os.path.join(VERIF, "kani", crate, "Cargo.lock")
    src = os.path.join(REPO, "Cargo.lock")
    if os.path.exists(src):
        if not os.path.exists(dst) or open(dst).read() != open(src).read():
            shutil.copyfile(src, dst)


def e2_slices():
    t = slicer.without_item(slicer.read(TABLE), r"pub\(crate\) mod verif_hooks", "verif_hooks module")
    out = {}
    out["calc_reductions_body"] = (
        slicer.block_after(
            t,
            r"fn calculate_reductions\s*\(\s*&mut self\s*\)",
            r"for follow_symbol in item\s*\.\s*follow\s*\.\s*borrow\(\)\s*\.\s*iter\(\)",
            "calculate_reductions/for follow_symbol",
        ),
        TABLE,
    )
    out["sort_terminals_body"] = (slicer.fn_body(t, r"fn sort_terminals\s*\(\s*&mut self\s*\)", "sort_terminals"), TABLE)
    lr = slicer.read(LRPARSER)
    NEXT_TOKEN = r"fn next_token\s*\("
    sel = slicer.region(lr, NEXT_TOKEN, r"let next_token = if D::longest_match\(\)", r"\n            \};", "next_token/selection")
    out["lr_select"] = ("{\n" + sel + "\nnext_token\n}\n", LRPARSER)
    glr = slicer.read(GLRPARSER)
    blk = slicer.block_after(glr, r"fn find_lookaheads\s*\(", r"if !tokens\.is_empty\(\)", "find_lookaheads/selection")
    out["glr_select"] = ("{\nif !tokens.is_empty() " + blk + "\ntokens\n}\n", GLRPARSER)
    sp = slicer.region(glr, r"fn reducer\s*\(", r"let span = if path\.parents\.is_empty\(\)", r"\n                        \};", "reducer/solution span")
    out["glr_span"] = ("{\n" + sp + "\nspan\n}\n", GLRPARSER)
    b = slicer.read(BUILDER)
    out["meta_inherit"] = (
        "{\n" + slicer.region(b, r"fn extract_productions_and_symbols\s*\(", r"// Inherit meta-data from Rule\.", r"new_production\.nopse = true;\s*\}", "extract_productions_and_symbols/meta inheritance") + "\n}\n",
        BUILDER,
    )
    out["firsts_fn"] = (slicer.fn_whole(t, r"fn firsts\s*\(", "firsts") + "\n", TABLE)
    out["rn_lengths_fn"] = (slicer.fn_whole(t, r"fn production_rn_lengths\s*\(", "production_rn_lengths") + "\n", TABLE)
    out["lritem_fns"] = ("impl LRItem {\n" + "\n".join(slicer.fn_whole(t, pat, what) for pat, what in (
        (r"fn inc_position\s*\(", "LRItem::inc_position"), (r"fn is_kernel\s*\(", "LRItem::is_kernel"), (r"fn is_reducing\s*\(\s*&self", "LRItem::is_reducing"))) + "\n}\n", TABLE)
    out["kernel_items_fn"] = ("impl<'g> LRState<'g> {\n" + slicer.fn_whole(t, r"fn kernel_items\s*\(", "LRState::kernel_items") + "\n}\n", TABLE)
    out["lrstate_eq"] = (slicer.fn_whole(t, r"impl PartialEq for LRState<'_>", "impl PartialEq for LRState") + "\n", TABLE)
    out["group_per_next_symbol_fn"] = ("impl<'g> LRState<'g> {\n" + slicer.fn_whole(t, r"fn group_per_next_symbol\s*\(", "LRState::group_per_next_symbol") + "\n}\n", TABLE)
    out["merge_state_fn"] = ("impl<'g, 's> LRTable<'g, 's> {\n" + slicer.fn_whole(t, r"fn merge_state\s*\(", "LRTable::merge_state") + "\n}\n", TABLE)
    a = slicer.read(ACTIONS)
    fns = []
    for f in ("regex_term", "int_const", "bool_const", "str_const", "annotation"):
        fns.append(slicer.fn_whole(a, r"pub fn %s\s*\(" % f, "rustemo_actions/" + f))
    out["tokval_fns"] = ("\n".join(fns) + "\n", ACTIONS)
    return out


RT_FILES = {
    "context.rs": "context.rs",
    "parser.rs": "parser.rs",
    "builder.rs": "builder.rs",
    "lexer.rs": "lexer.rs",
    "lr/builder.rs": "lr_builder.rs",
    "lr/context.rs": "lr_context.rs",
    "lr/parser.rs": "lr_parser.rs",
}


def e4_rehost():
    """Copies the real runtime source files byte for byte (whole-file slices)."""
    out = {}
    for src, dst in RT_FILES.items():
        rel = "rustemo/src/" + src
        out["rt/" + dst[:-3]] = (slicer.read(rel), rel)
    lr = slicer.read(LRPARSER)
    out["lr_from_state"] = ("{\n" + slicer.region_to_block_end(lr, r"fn parse_with_context\s*\(", r"let mut state = parse_stack\.state\(\);", r"\bloop\b", "parse_with_context/from state") + "\n}\n", LRPARSER)
    return out


def prepare(crates, prop, tier, seed):
    import gen_e4
    res = {"slices": {}, "generated": {}, "assumptions": []}
    try:
        for c in crates:
            copy_lock(c)
        if "e2" in crates:
            res["slices"].update(slicer.write_slices(os.path.join(VERIF, "kani", "e2", "gen"), e2_slices()))
        if "e4" in crates:
            res["slices"].update(slicer.write_slices(os.path.join(VERIF, "kani", "e4", "gen"), e4_rehost()))
            gen_e4.build_native()
            res["generated"] = gen_e4.generate_e4(tier)
        if "e3" in crates:
            import gen_e3
            gen_e4.build_native()
            res["generated"], _ = gen_e3.generate_e3(tier)
    except SliceError as e:
        res["error"] = str(e)
    except gen_e4.GenError as e:
        res["error"] = str(e)
    except gen_e4.CompilerPanic as e:
        res["error"] = str(e)
        res["compiler_panic"] = {"grammar": e.grammar, "args": e.args}
    return res
