"""Property -> harnesses. Each harness entry states what it decides, its bounds, the real
functions it encodes and its resource caps. Tiers: quick (every change) / thorough."""

Q = ("quick", "thorough")
T = ("thorough",)

STUBS_COMMON = [
    "stub: std::env::var_os -> None (the dev-profile log! macro consults RUSTEMO_TRACE; tracing is not a subject)",
]


def h(crate, name, decides, bounds, functions, tiers=Q, timeout=1200, mem_gb=10, stubbing=False, extra=(), cost=1, expect_fail=False, **kw):
    d = dict(crate=crate, name=name, decides=decides, bounds=bounds, functions=list(functions), tiers=tiers,
             timeout=timeout, mem_gb=mem_gb, stubbing=stubbing, extra=list(extra), cost=cost, expect_fail=expect_fail)
    d.update(kw)
    return d


# Pointer-validity checks are switched off for slice harnesses: the sliced code and the
# stand-ins are safe Rust (the crates forbid unsafe code); bounds, overflow, unwrap and
# explicit assert!/panic! checks stay on.
NOMEM = ["-Z", "unstable-options", "--no-memory-safety-checks"]

CALC = ["rustemo-compiler/src/table/mod.rs: LRTable::calculate_reductions (body of `for follow_symbol in ..`, sliced verbatim)"]
RES_BOUNDS = "cell length <= 3 (concrete shape per harness), priorities 0..=99, all associativity/nops/nopse/prefer_* /algo combinations, unwind 8"


def res(name, what, tiers=Q, cost=2, **kw):
    return h("e2", "resolve::proofs::" + name, what, RES_BOUNDS, CALC, tiers=tiers, timeout=900, mem_gb=8, cost=cost, extra=NOMEM, **kw)


PROPS = {}

PROPS["C05"] = dict(
    level="other",
    explanation=(
        "Bounded model checking (Kani/CBMC) of the real conflict-resolution code of LRTable::calculate_reductions, "
        "sliced byte-for-byte from /repo on every run and compiled against stand-in container types. For every cell "
        "shape ([], [Shift], [Accept], [Reduce], [Reduce,Reduce], [Shift,Reduce], [Shift,Reduce,Reduce], [Accept,Reduce]) "
        "the solver decides, for all priorities 0..=99 and all associativity / nops / nopse / prefer_shifts / "
        "prefer_shifts_over_empty / LR-GLR combinations, that the kept actions equal the documented decision table and "
        "that no assert!/panic! in the code is reachable."
    ),
    residual="keyword->meta-data mapping (constant functions) and the end-to-end operator-grammar tree claim (see E4 harnesses under C05 when present)",
    assumptions=[
        "pre-state cells satisfy the invariant of reachable cells: coexisting entries have equal priority; a shift coexists with a reduction only if the terminal has no associativity",
        "stand-ins: TermVec<Vec<Action>> -> one-cell array of real Vec<Action>; BTreeMap max_prior_for_term -> single value; Grammar/Production/Terminal/Settings -> structs with the mentioned fields only",
        "priorities bounded by 99 (documented terminal maximum; the comparison logic is width-independent)",
    ],
    harnesses=[
        res("res_empty_cell", "empty cell: the reduction is registered"),
        res("res_shift", "S/R against a Shift: priority, production associativity, prefer_shifts(_over_empty), nops/nopse"),
        res("res_accept", "S/R against Accept (default priority)"),
        res("res_reduce", "R/R against one reduction: priority; LR non-empty over empty; GLR keeps ties"),
        res("res_reduce2", "R/R against two tied reductions"),
        res("res_shift_reduce", "new reduction into an unresolved [Shift, Reduce] cell; never aborts"),
        res("res_shift_reduce2", "new reduction into [Shift, Reduce, Reduce]", tiers=T),
        res("res_accept_reduce", "new reduction into [Accept, Reduce]", tiers=T),
        res("res_shift_termassoc", "terminal-level associativity overrides the production's (left/reduce keeps the reduction, right/shift keeps the shift)"),
        res("res_accept_termassoc", "terminal-level associativity against Accept", tiers=T),
        res("res_reduce_emptytie", "LR tie among empty reductions only is reported as a conflict, not silently resolved"),
        res("res_reduce2_emptytie", "same with two existing empty reductions", tiers=T),
        res("res_shift_reduce_emptytie", "same with a shift present", tiers=T),
        res("res_twin_must_fail", "vacuity twin (must FAIL)", expect_fail=True, cost=1),
    ],
)

SORT = ["rustemo-compiler/src/table/mod.rs: LRTable::sort_terminals (body, sliced verbatim)"]
LEX = ["rustemo/src/lexer.rs: StringLexer::next_tokens + TokenIterator::next (real crate, unsliced)"]
LRSEL = ["rustemo/src/lr/parser.rs: LRParser::next_token (statement `let next_token = if D::longest_match() ..`, sliced verbatim)"]
GLRSEL = ["rustemo/src/glr/parser.rs: GlrParser::find_lookaheads (block `if !tokens.is_empty() {..}`, sliced verbatim)"]


def lexh(name, what, n, tiers=Q, **kw):
    return h("e2", "sortlex::proofs::" + name, what,
             "%d overlapping terminals, priorities 0..=99, kind regex or string of length 1..3, match lengths 1..4 (strings match their own length), most_specific on/off, unwind 8" % n,
             SORT + LEX + (LRSEL if name.startswith("l") else GLRSEL if name.startswith("g") else []),
             tiers=tiers, timeout=2400, mem_gb=10, cost=5, extra=NOMEM, stubbing=True, **kw)


PROPS["C06"] = dict(
    level="other",
    explanation=(
        "Bounded model checking (Kani/CBMC) of the lexical-disambiguation chain in one harness: the real body of "
        "LRTable::sort_terminals (sliced) produces the (terminal, finish) try order, which is handed to the real, unsliced "
        "StringLexer::next_tokens / TokenIterator of the runtime crate with arbitrary-prefix recognizers, whose tokens go "
        "through the real selection code of LRParser::next_token / GlrParser::find_lookaheads (sliced). For every priority / "
        "recognizer-kind / match-length assignment of 3 (quick) or 4 (thorough) overlapping terminals and every strategy "
        "switch, the solver decides that the LR parser acts on exactly the token the documented order of strategies selects "
        "and the GLR parser keeps exactly the surviving set."
    ),
    residual="that the GLR parser then follows each surviving token (head splitting in create_frontier); the regex engine itself (recognizers are arbitrary prefix matchers)",
    assumptions=[
        "recognizer model: for each terminal an arbitrary Option<length>; a string recognizer matches exactly its literal length or not at all; two string recognizers of equal literal length never both match (they would be the same literal) (environment stub for generated recognizers / the regex engine)",
        "stand-ins on the compiler side: Grammar/Terminal/Recognizer/LRState structs with the mentioned fields; Vec -> fixed-capacity AVec; [T]::sort_by -> stable insertion sort calling the sliced comparator",
        "stub: std::env::var_os -> None (log! macro)",
    ],
    harnesses=[
        # sort3 / sort4 (try order and finish flags against a reference) exist in sortlex.rs but are
        # not registered: they pin the internal compiler/lexer protocol, which is more than the
        # property states; the chain harnesses below decide the property itself.
        lexh("lr3_longest", "LR, longest match on", 3),
        lexh("lr3_first", "LR, longest match off (grammar order)", 3),
        lexh("lr4_longest", "LR, longest match on", 4, tiers=T),
        lexh("lr4_first", "LR, longest match off", 4, tiers=T),
        lexh("glr3_lm_go", "GLR, longest match + grammar order", 3, tiers=T),
        lexh("glr3_lm", "GLR, longest match only", 3),
        lexh("glr3_go", "GLR, grammar order only", 3, tiers=T),
        lexh("glr3_none", "GLR, no optional strategy: all survivors kept", 3),
        lexh("glr4_lm", "GLR, longest match only", 4, tiers=T),
        lexh("glr4_none", "GLR, no optional strategy", 4, tiers=T),
        lexh("lr3_longest_tail", "LR longest; a higher-priority group with a non-matching member must still stop lower-priority terminals", 3),
        lexh("lr3_first_tail", "same, longest match off", 3, tiers=T),
        lexh("glr3_lm_tail", "same, GLR longest", 3, tiers=T),
        lexh("glr3_none_tail", "same, GLR no optional strategy", 3),
        lexh("lex_twin_must_fail", "vacuity twin (must FAIL)", 3, expect_fail=True),
    ],
)

# ---- E1 leaf harnesses -------------------------------------------------------------------
F_POS = ["rustemo/src/input.rs: <str as Input>::position_after, Input::span_from (real crate)"]
F_BYTES = ["rustemo/src/input.rs: <[u8] as Input>::position_after (real crate)"]
F_SLICE = ["rustemo/src/input.rs: <str as Input>::slice (real crate)"]
F_CTXSTR = ["rustemo/src/input.rs: <str as Input>::context_str (real crate)"]
F_SKIP = ["rustemo/src/lexer.rs: StringLexer::next_tokens, StringLexer::skip (real crate)"]
F_TOKIT = ["rustemo/src/lexer.rs: StringLexer::next_tokens, TokenIterator::next (real crate)"]
F_TREEB = ["rustemo/src/lr/builder.rs: TreeBuilder::{shift_action, reduce_action, get_result} (real crate)"]
F_SLICEB = ["rustemo/src/lr/builder.rs: SliceBuilder::{shift_action, reduce_action, get_result} (real crate)"]
F_ERR = ["rustemo/src/error.rs: error_expected (real crate, via feature-gated wrapper)"]
F_FOREST = ["rustemo/src/glr/gss.rs: Forest::{new, solutions, get_tree, iter, into_iter}, Tree::{children, find_tree_root}, SPPFTree::solutions, Parent::solutions (real crate)"]


def e1(name, what, bounds, functions, tiers=Q, timeout=1500, mem_gb=8, cost=2, **kw):
    return h("e1", name, what, bounds, functions, tiers=tiers, timeout=timeout, mem_gb=mem_gb, cost=cost, stubbing=True, **kw)


E1 = dict(
    pos2=e1("h_input::pos_after_law_2", "line/column law of position_after and span_from (tiny bound, robust canary)", "valid UTF-8 <= 2 bytes, any position", F_POS),
    pos3=e1("h_input::pos_after_law_3", "line/column law of position_after and span_from (tiny bound: a newline followed by a 2-byte char fits)", "valid UTF-8 <= 3 bytes, any position", F_POS, mem_gb=16),
    abs3=e1("h_input::pos_absolute_3", "absolute line/column law (tiny bound, robust canary)", "valid UTF-8 <= 3 bytes, any cut", F_POS),
    ws3=e1("h_lexer::ws_skip_3", "whitespace skipping (tiny bound, robust canary)", "valid UTF-8 <= 3 bytes, any char-boundary start", F_SKIP + F_POS),
    pos4=e1("h_input::pos_after_law_4", "line/column law of position_after and span_from", "valid UTF-8 <= 4 bytes, any position", F_POS),
    pos6=e1("h_input::pos_after_law_6", "line/column law of position_after and span_from", "valid UTF-8 <= 6 bytes, any position", F_POS, tiers=T),
    pos8=e1("h_input::pos_after_law_8", "line/column law of position_after and span_from", "valid UTF-8 <= 8 bytes, any position", F_POS, tiers=T, cost=4),
    abs4=e1("h_input::pos_absolute_4", "absolute line/column law from the start position; composition over concatenation", "valid UTF-8 <= 4 bytes, any cut", F_POS),
    abs6=e1("h_input::pos_absolute_6", "absolute line/column law from the start position; composition over concatenation", "valid UTF-8 <= 6 bytes, any cut", F_POS, tiers=T),
    bytes=e1("h_input::bytes_pos_after", "[u8] input positions", "<= 4 bytes", F_BYTES),
    slice4=e1("h_input::str_slice_total_4", "<str as Input>::slice never panics on a non-empty range between two char-boundary positions", "valid UTF-8 <= 4 bytes", F_SLICE),
    slice6=e1("h_input::str_slice_total_6", "<str as Input>::slice never panics on a non-empty range between two char-boundary positions", "valid UTF-8 <= 6 bytes", F_SLICE, tiers=T),
    ws4=e1("h_lexer::ws_skip_4", "whitespace skipping: layout = maximal whitespace prefix, position advanced by it", "valid UTF-8 <= 4 bytes, any char-boundary start", F_SKIP + F_POS),
    ws6=e1("h_lexer::ws_skip_6", "whitespace skipping: layout = maximal whitespace prefix, position advanced by it", "valid UTF-8 <= 6 bytes, any char-boundary start", F_SKIP + F_POS, tiers=T, cost=4),
    tok4=e1("h_lexer::token_iter_4", "TokenIterator: token value = input[span], spans, order, finish flag", "valid UTF-8 <= 4 bytes, 3 expected terminals, arbitrary prefix matches and flags", F_TOKIT + F_POS),
    tok6=e1("h_lexer::token_iter_6", "TokenIterator: token value = input[span], spans, order, finish flag", "valid UTF-8 <= 6 bytes, 3 expected terminals, arbitrary prefix matches and flags", F_TOKIT + F_POS, tiers=T, cost=4),
    lextwin=e1("h_lexer::lexer_twin_must_fail", "vacuity twin (must FAIL)", "-", F_SKIP, expect_fail=True),
    err1=e1("h_error::error_expected_span_1", "syntax error span = zero-width span at the lexing position", "positions <= 3, 1 expected kind", F_ERR, mem_gb=12),
    err2=e1("h_error::error_expected_span_2", "syntax error span = zero-width span at the lexing position", "positions <= 3, 2 expected kinds", F_ERR, mem_gb=12, tiers=T),
    sliceb=e1("h_builder::slice_builder_4", "SliceBuilder saves input[context.span()]", "valid UTF-8 <= 4 bytes", F_SLICEB),
    tree00=e1("h_builder::tree_reduce_0_0", "empty reduction on an empty result stack", "-", F_TREEB),
    gettop=e1("h_builder::get_result_top_of_2", "get_result returns the node on top of the result stack (2 nodes present)", "symbolic kinds/spans/layouts", F_TREEB),
    buildtwin=e1("h_builder::builder_twin_must_fail", "vacuity twin (must FAIL)", "-", F_TREEB, expect_fail=True),
)
for (k, l, tiers) in [(1, 0, Q), (1, 1, Q), (2, 1, T), (2, 2, Q), (3, 0, Q), (3, 2, Q), (3, 3, T), (4, 2, T), (4, 4, T)]:
    E1["tree%d%d" % (k, l)] = e1("h_builder::tree_reduce_%d_%d" % (k, l), "TreeBuilder stack discipline: %d nodes, reduce %d" % (k, l),
                                 "symbolic kinds/spans/layouts, optional inner non-terminal", F_TREEB, tiers=tiers)
PROPS["E1ALL"] = dict(level="other", explanation="all E1 harnesses (development only)", harnesses=list(E1.values()))


# ---- E4: LR automaton over the real tables of the corpus, all token strings <= N ---------
import gen_e4  # noqa: E402

F_TABLE = [
    "rustemo-compiler/src/table/mod.rs: LRTable::new (first_sets, closure, calc_states, merge_state, propagate_follows, calculate_reductions, sort_terminals) - executed natively on the corpus grammar, its result (dump hook) is the table the solver quantifies token strings over",
    "rustemo-compiler/src/grammar/builder.rs: GrammarBuilder::try_from_file (same)",
]


def e4_harnesses():
    hs = []
    for c in gen_e4.E4_CORPUS:
        for tag, tiers, n in (("q", Q, c["nq"]), ("t", T, c["nt"])):
            hs.append(h("e4", "proofs::lr_%s_%s" % (c["name"], tag),
                        "grammar %s %s: automaton over the real table accepts iff sentence (Earley reference), rejects at the first offending token, every accepted run is a valid derivation" % (c["file"], " ".join(c["args"])),
                        ("all token strings of length <= %d over the grammar's terminals" % n) if tag == "q" else "all token strings up to the thorough bound (>= %d; 12/10/8/7/6/5 for 1/2/3/4/5/6+ terminals) over the grammar's terminals" % n, F_TABLE, tiers=tiers, timeout=1800, mem_gb=10, cost=3, extra=NOMEM))
    return hs


def canon_harnesses():
    hs = []
    for c in gen_e4.E4_CORPUS + gen_e4.CANON_ONLY:
        hs.append(h("e4", "proofs::canon_%s" % c["name"],
                    "grammar %s %s: every state of the table the real compiler computed stands for canonical LR(1) states (independent textbook construction, vlib/canon.py, related by equal transition paths) with the same item core and exactly their transitions, and every item's lookahead set = union of the canonical lookaheads (none lost, none invented)" % (c["file"], " ".join(c["args"])),
                    "all (state, item, lookahead) and (state, symbol) cells of the table (symbolic indices over the complete table)", F_TABLE, tiers=Q, timeout=600, mem_gb=6, cost=1, extra=NOMEM))
    return hs


PROPS["C01"] = dict(
    level="other",
    explanation=(
        "For each grammar of a corpus of deterministic grammars (LALR, LALR-needing-lookahead, LR(1)-not-LALR needing state "
        "splitting, nullable and sugar-expanded rules) the real compiler front end and LRTable::new are run on /repo's current "
        "tree and the computed table is dumped (verif hook). Kani/CBMC then decides, for EVERY token string up to the stated "
        "length (symbolic token array), that the LR automaton over that table accepts iff the string is a sentence "
        "(independent Earley recognizer compiled into a lookup table), that every rejection happens at the first token that "
        "cannot continue any sentence, and that every accepted run is a valid bottom-up derivation. That the real LR loop body "
        "performs exactly the automaton's step is decided on the real source by the step harnesses (C02/C13/C15)."
    ),
    residual="grammars outside the corpus (the grammar axis is a finite corpus; table construction is executed concretely, not symbolically); token strings longer than the bound; lexing (token kinds are given, one token per position)",
    assumptions=[
        "the LR step relation is a harness-side model (40 lines); its agreement with the real loop body is a separate solver-decided obligation (step harnesses), not an assumption of this check's verdict on the tables",
        "reference membership / first-error tables come from an independent Earley recognizer (vlib/gen_e4.py), cross-checked natively against the unchanged tree at generation time",
        "context-aware lexing abstraction: a token is found iff its kind is expected in the current state",
    ],
    harnesses=e4_harnesses(),
)

F_LOOP = ["rustemo/src/lr/parser.rs: LRParser::parse_with_context from `let mut state = parse_stack.state();` to the end of its `loop` (sliced verbatim; first lookahead, one symbolic iteration, Accept), ParseStack::{push_state, pop_states, state}, LRParser::next_token (whole file re-hosted byte for byte with Vec -> fixed-capacity stand-in, Position/SourceSpan -> offset-only stand-ins)",
          "rustemo/src/lr/context.rs: LRContext (re-hosted)", "rustemo/src/lexer.rs: Lexer trait, Token (re-hosted)"]


def steph(name, what, tiers=Q, **kw):
    return h("e4", "lr::parser::step::" + name, what,
             "parse stack of K items (K concrete per harness) with arbitrary states and ordered spans, arbitrary lookahead/position/layout, symbolic action (Shift/Reduce(len<K)/Accept/Error) and GOTO answer, unwind 10",
             F_LOOP, tiers=tiers, timeout=1500, mem_gb=10, cost=3, extra=NOMEM, **kw)


STEP = [
    steph("step_1", "one LR step from a 1-item stack = textbook step"),
    steph("step_2", "one LR step from a 2-item stack = textbook step"),
    steph("step_3", "one LR step from a 3-item stack = textbook step"),
    steph("step_4", "one LR step from a 4-item stack = textbook step", tiers=T),
    steph("step_2_empty_cell", "empty action cell (unexpected token kind from a custom lexer) -> Err, no panic"),
    steph("step_twin_must_fail", "vacuity twin (must FAIL)", expect_fail=True),
    steph("next_token_partial", "real LRParser::next_token: found token unchanged; synthetic STOP only if nothing matches, STOP expected and partial parsing on; else error at the post-layout position"),
]
PROPS["STEP"] = dict(level="other", explanation="LR step harnesses (development only)", harnesses=STEP)


F_META = ["rustemo-compiler/src/grammar/builder.rs: GrammarBuilder::extract_productions_and_symbols (block `// Inherit meta-data from Rule.` .. nopse mapping, sliced verbatim)"]


def metah(name, what, **kw):
    return h("e2", "metainherit::proofs::" + name, what, "all presence/value combinations of priority (<=1000), left, right, nops, nopse, kind, one user key at rule and production level; unwind 10",
             F_META, timeout=900, mem_gb=8, cost=1, extra=NOMEM, **kw)


PROPS["C09"] = dict(
    level="other",
    explanation=(
        "Bounded model checking (Kani/CBMC) of the real rule->production meta-data inheritance and field-mapping block of "
        "GrammarBuilder::extract_productions_and_symbols, sliced byte-for-byte from /repo on every run: for every presence and "
        "value of priority, left, right, nops, nopse, kind and a user key at rule level and at production level, every "
        "production field equals the production-level datum if the production gives that datum itself, else the rule-level "
        "datum, else the default (priority 10, no associativity, false)."
    ),
    residual="text->AST front end, EMPTY removal, inline-string resolution, desugaring of ? * + [sep] and index allocation (String-keyed maps and format!-built names; the language-level effect of desugaring is covered for the corpus grammar g7_sugar under C01)",
    assumptions=[
        "stand-in: BTreeMap<String, ConstVal> -> 7-slot map keyed by the same literals ('priority','left','right','nops','nopse','kind', any other = user key)",
        "at most one of left/right per meta block (writing both in one block has no documented meaning)",
    ],
    harnesses=[
        metah("inherit_all", "all fields, production vs rule level"),
        metah("inherit_assoc_cross", "a production giving left (right) under a rule giving right (left) keeps its own associativity"),
        metah("inherit_twin_must_fail", "vacuity twin (must FAIL)", expect_fail=True),
    ],
)


F_TOKVAL = ["rustemo-compiler/src/lang/rustemo_actions.rs: int_const, bool_const, annotation, regex_term, str_const (whole functions, sliced verbatim)"]


def tokh(name, what, bounds, tiers=Q, **kw):
    return h("e2", "tokvals::proofs::" + name, what, bounds, F_TOKVAL, tiers=tiers, timeout=1200, mem_gb=8, cost=2, extra=NOMEM, **kw)


TOKVAL = [
    tokh("int_const_1", "int_const on 1 ASCII digit: no panic, value = number written", "all 1-digit strings"),
    tokh("int_const_3", "int_const on 3 ASCII digits", "all 3-digit strings"),
    tokh("int_const_9", "int_const on 9 ASCII digits (largest length that always fits u32)", "all 9-digit strings", tiers=T),
    tokh("int_const_10", "int_const on 10 ASCII digits (can exceed u32::MAX)", "all 10-digit strings"),
    tokh("bool_const_h", "bool_const", "true | false"),
    tokh("annotation_h", "annotation: value = text after @", "@ + 1..3 identifier bytes"),
    tokh("tokval_twin_must_fail", "vacuity twin (must FAIL)", "-", expect_fail=True),
]
PROPS["TOKVAL"] = dict(level="other", explanation="dev", harnesses=TOKVAL)


PROPS.pop("TOKVAL", None)
PROPS.pop("STEP", None)
PROPS.pop("E1ALL", None)


def pick(spec, names):
    d = {x["name"].split("::")[-1]: x for x in spec["harnesses"]}
    return [d[n] for n in names]


def with_tiers(hh, tiers):
    d = dict(hh)
    d["tiers"] = tiers
    return d


E4Q = {x["name"].split("::")[-1]: x for x in e4_harnesses()}

PROPS["C16"] = dict(
    level="other",
    explanation=(
        "Bounded model checking (Kani/CBMC) of the parts of the grammar compiler that are in reach: the token-value actions of "
        "the grammar language (int_const, bool_const, annotation; whole functions sliced verbatim) on every token text of the "
        "stated length that the terminal accepts, and the conflict-resolution code of calculate_reductions, whose assert!/panic! "
        "statements are shown unreachable for every cell shape (shared with C05)."
    ),
    residual="GrammarBuilder (String-keyed maps: missing 'AUG' unwrap on a terminals-only file, todo!() on greedy repetition operators, expect() on parenthesized groups - all observed natively, none decidable here), table construction fixpoints, generator (syn/quote), regex_term/str_const (String::replace on symbolic text does not finish), float_const (floating point)",
    assumptions=["IntConst text is restricted to ASCII digits (the terminal regex /\\d+/ also accepts other Unicode digits, which is part of the recorded finding)"],
    harnesses=TOKVAL[:-1] + [TOKVAL[-1]] + pick(PROPS["C05"], ["res_shift_reduce", "res_shift_reduce2", "res_accept_reduce", "res_shift", "res_accept"]),
)

PROPS["C02"] = dict(
    level="other",
    explanation=(
        "Solver-decided pieces of 'every successful LR parse yields a valid derivation': (1) one step of the real LR loop body "
        "(sliced from LRParser::parse_with_context, run inside the re-hosted real lr/parser.rs) from an arbitrary valid parser "
        "state equals the textbook LR step - Reduce(prod,len) pops len states, takes the GOTO of the production's non-terminal "
        "from the state below, calls the builder with exactly (prod,len); Shift pushes the target state and hands the token to "
        "the builder; (2) the real TreeBuilder keeps the stack discipline (children = previous top prod_len nodes, in order); "
        "(3) conflict resolution only removes candidate actions (sliced calculate_reductions); (4) for the corpus grammars the "
        "automaton over the real tables validates every accepted run as a bottom-up derivation consuming the whole input, for "
        "every token string up to the bound."
    ),
    residual="the composition over a whole parse for grammars outside the corpus; partial parsing at the loop level (the synthetic-STOP rule of next_token is decided only through the re-hosted next_token when present in the step harness)",
    assumptions=["see C01 for the corpus/automaton assumptions", "stand-ins of the step harness: Vec -> fixed-capacity vector, Position/SourceSpan -> offsets only, symbolic ParserDefinition/Lexer/Builder recording their calls"],
    harnesses=STEP[:3] + [STEP[3], STEP[5], STEP[6]]
    + [E1[k] for k in ("tree10", "tree11", "tree21", "tree22", "tree30", "tree32", "tree33", "tree42", "tree44", "tree00", "gettop", "buildtwin")]
    + pick(PROPS["C05"], ["res_shift", "res_reduce", "res_shift_reduce"])
    + [E4Q[n] for n in ("lr_g1_expr_q", "lr_g5_opt_list_q", "lr_g7_sugar_q", "lr_g1_expr_t", "lr_g5_opt_list_t", "lr_g7_sugar_t")],
)

PROPS["C12"] = dict(
    level="other",
    explanation=(
        "Solver-decided pieces of 'syntax errors point at the first offending token': (1) for every corpus grammar and every "
        "token string up to the bound, the automaton over the real table rejects exactly the non-sentences and does so at the "
        "first token that cannot continue any sentence (independent Earley viable-prefix reference), and never rejects a "
        "sentence; (2) the real error_expected builds a zero-width span at the context position (offset, line, column), not at "
        "the previous token's span; (3) the real whitespace skipping leaves the position on the first non-layout byte with "
        "line/column advanced by the law; (4) the line/column law of position_after on every valid UTF-8 string up to the "
        "bound; (5) in the real loop body, a failed lookahead after a shift/reduce surfaces as Err."
    ),
    residual="GLR error position (make_error picks the first head of the last frontier); the non-empty expected list text; grammars outside the corpus",
    assumptions=["see C01 for the corpus/automaton assumptions", "stub: fmt::format (message text is not a subject)"],
    harnesses=[E1[k] for k in ("err1", "err2", "ws3", "ws4", "ws6", "pos2", "pos3", "pos4", "pos6", "abs3", "abs4", "lextwin")] + [STEP[1], STEP[5], STEP[6]]
    + [E4Q[n] for n in sorted(E4Q) if n.endswith("_q")][:8] + [E4Q[n] for n in sorted(E4Q) if n.endswith("_t")][:8],
)

PROPS["C13"] = dict(
    level="other",
    explanation=(
        "Solver-decided pieces of 'spans and positions locate every tree node': (1) the line/column law of the real "
        "<str as Input>::position_after / span_from for every valid UTF-8 string up to the bound, relative and absolute (line = "
        "1 + newlines before the offset, column = bytes from the line start) and its composition over concatenation; (2) every "
        "token produced by the real TokenIterator has value == the very slice of the input at its span, span.start = lexing "
        "position, span.end = position_after; (3) one step of the real LR loop body: a shifted span is [position, position "
        "after the token]; a reduced span runs from the first child's start to the last child's end; an empty reduction gets a "
        "zero-width span between the end of the preceding token and the start of the next; the context span of the last token "
        "is restored after a reduction; positions are untouched by reductions."
    ),
    residual="GLR span threading through the reducer; ordering/non-overlap of all leaves of a whole tree as a global statement (follows from the step facts by induction, not decided as a whole)",
    assumptions=["recognizer model: arbitrary prefix matcher", "step harness stand-ins as in C02"],
    harnesses=[E1[k] for k in ("pos2", "pos3", "pos4", "pos6", "pos8", "abs3", "abs4", "abs6", "bytes", "tok4", "tok6", "lextwin")] + STEP[:4] + [STEP[5]],
)

PROPS["C14"] = dict(
    level="other",
    explanation=(
        "Solver-decided pieces of 'the generic tree is lossless' (whitespace mode): (1) the real StringLexer skipping: the layout "
        "recorded is exactly the maximal whitespace prefix (Unicode White_Space) at the old position, None when empty, a stale "
        "layout is cleared, and the position advances by it - so layout + token text tile the input; (2) the real TreeBuilder "
        "stores context.layout_ahead() on the leaf and the first child's layout on a node; (3) in the real LR loop body the "
        "layout found before the lookahead survives the re-lexing after a reduction; (4) the real SliceBuilder (layout parser "
        "result) returns input[context.span()]."
    ),
    residual="the Layout-rule sub-parser as a whole, the round trip over a whole parse, 'inserting layout never changes the tree'",
    assumptions=["step harness stand-ins as in C02"],
    harnesses=[E1[k] for k in ("ws3", "ws4", "ws6", "sliceb", "tree11", "tree22", "tree32", "tree30", "lextwin")] + [STEP[1], STEP[2], STEP[5]],
)

PROPS["C15"] = dict(
    level="other",
    explanation=(
        "Panic-freedom (index, slice, char-boundary, arithmetic overflow as in the dev profile, unwrap/expect - all Kani default "
        "checks kept on) of the runtime functions every parse goes through, on arbitrary valid UTF-8 up to the bound: "
        "position_after, span_from, <str as Input>::slice as called by the parsers, whitespace skipping, TokenIterator::next, "
        "TreeBuilder/SliceBuilder actions; and one step of the real LR loop body from an arbitrary valid state, including an "
        "empty action cell (a custom lexer returning a token kind the state does not expect), which must be an Err. For the "
        "corpus grammars the automaton over the real tables terminates within the computed step bound on every token string up "
        "to the bound (unwinding assertions on)."
    ),
    residual="termination / panic-freedom of the complete LR and GLR loops on real text (e.g. a terminal whose regex matches the empty string can be shifted for ever - observed by reading, not decidable here); the GLR reducer",
    assumptions=["recognizer model: arbitrary prefix matcher", "step harness stand-ins as in C02"],
    harnesses=[E1[k] for k in ("pos2", "pos4", "pos6", "slice4", "slice6", "bytes", "ws3", "ws4", "ws6", "tok4", "tok6", "sliceb", "tree00", "lextwin")]
    + [STEP[4], STEP[1], STEP[5]] + [E4Q[n] for n in ("lr_g2_nullable_q", "lr_g14_unary_chain_q", "lr_g2_nullable_t", "lr_g14_unary_chain_t")],
)


# ---- E3 (C08) ---------------------------------------------------------------------------------
import gen_e3  # noqa: E402

F_GEN = ["rustemo-compiler/src/generator/{mod,arrays,functions,base}.rs: generate_parser (executed natively on the corpus; its output, the generated parser module, is compiled unchanged into the harness crate)",
         "generated code: <Grammar>ParserDefinition::{actions, goto, expected_token_kinds, longest_match, grammar_order}, State::default_layout, From<ProdKind> for NonTermKind"]


def e3_harnesses():
    hs = []
    for c in gen_e3.E3_CORPUS:
        tiers = Q if c["quick"] else T
        for layout in ("fn", "arr"):
            for q, what in (("actions", "every (state, token) action query = computed cell"), ("gotos", "every existing (state, non-terminal) goto = computed goto"),
                            ("expected", "every expected-token query = computed sorted terminals + finish flags"), ("misc", "settings constants, layout state, production->non-terminal, enum order")):
                hs.append(h("e3", "proofs::%s_%s::%s" % (c["name"], layout, q), "%s %s [%s layout]: %s" % (os.path.basename(c["file"]), " ".join(c["args"]), "functions" if layout == "fn" else "arrays", what),
                            "all states x all tokens / non-terminals of the module (symbolic indexes)", F_GEN, tiers=tiers, timeout=900, mem_gb=8, cost=1))
    return hs


import os  # noqa: E402

PROPS["C08"] = dict(
    level="other",
    explanation=(
        "For every grammar of a corpus (repo tests/examples/docs grammars and the verif corpus; LR and GLR settings) and both "
        "generated-table layouts, the real generator is run on /repo's current tree and the generated parser module is compiled "
        "UNCHANGED into the harness crate next to the plain-data dump of the table the compiler computed. Kani/CBMC decides, for "
        "every state index and every token / non-terminal index (symbolic), that actions(), goto() and expected_token_kinds() of "
        "the generated PARSER_DEFINITION answer exactly as the computed table (as sequences), and that the settings constants, "
        "layout state and production->non-terminal map agree. Since both layouts equal the same dump cell by cell they equal each "
        "other; 'parse every input identically' then follows from their driving the same runtime (inference, not a solver result)."
    ),
    residual="grammars outside the corpus (finite corpus); the recognizers (regex strings) and the builder part of the generated file",
    assumptions=["index <-> enum variant correspondence = declaration order of the generated enums (what `state as usize` / array indexing in the generated code relies on), read from the generated source",
                 "goto queries without a table entry are excluded (the generated code panics there by design: 'Invalid GOTO entry')"],
    harnesses=e3_harnesses(),
)

# ---- table construction kernels (C04, C03) --------------------------------------------------
F_KERN = ["rustemo-compiler/src/table/mod.rs: firsts, production_rn_lengths, LRItem::{is_kernel, is_reducing, inc_position}, LRState::kernel_items, impl PartialEq for LRState, LRTable::merge_state (whole functions / items, sliced verbatim)"]


def kernh(name, what, bounds, tiers=Q, **kw):
    return h("e2", "tablekern::proofs::" + name, what, bounds, F_KERN, tiers=tiers, timeout=600, mem_gb=12, cost=2, extra=NOMEM, **kw)


KERN = [
    kernh("firsts_0", "FIRST of the empty sequence", "first sets: arbitrary bitsets over 6 symbols"),
    kernh("firsts_1", "FIRST of a 1-symbol sequence", "first sets: arbitrary bitsets over 6 symbols; any symbol"),
    kernh("firsts_2", "FIRST of a 2-symbol sequence", "first sets: arbitrary bitsets over 6 symbols; any symbols"),
    kernh("firsts_3", "FIRST of a 3-symbol sequence", "first sets: arbitrary bitsets over 6 symbols; any symbols", tiers=T),
    kernh("rn_len_0", "right-nulled length / is_reducing, empty production", "arbitrary nullability"),
    kernh("rn_len_2", "right-nulled length / is_reducing, production of length 2", "arbitrary nullability, any dot position"),
    kernh("rn_len_3", "right-nulled length / is_reducing, production of length 3", "arbitrary nullability, any dot position"),
    kernh("rn_len_4", "right-nulled length / is_reducing, production of length 4", "arbitrary nullability, any dot position", tiers=T),
    kernh("merge_lalr_2", "merge_state, LALR: always merges, lookaheads = union", "2 kernel items, follow sets arbitrary non-empty subsets of 3 terminals, reducing / non-reducing / right-nulled items"),
    kernh("merge_pager_1", "merge_state, Pager, single kernel item", "1 kernel item"),
    kernh("kern_twin_must_fail", "vacuity twin (must FAIL)", "-", expect_fail=True),
]
PROPS["KERN"] = dict(level="other", explanation="dev", harnesses=KERN)

PROPS.pop("KERN", None)
KD = {x["name"].split("::")[-1]: x for x in KERN}

PROPS["C04"] = dict(
    level="other",
    explanation=(
        "Solver-decided pieces of 'the LR table is a core-preserving compression of canonical LR(1)': (1) kernels of the "
        "construction, whole functions sliced verbatim from table/mod.rs: FIRST of a symbol sequence (firsts), right-nulled "
        "lengths (production_rn_lengths), LRItem::is_reducing / is_kernel, and merge_state for LALR (always merges, lookaheads = "
        "union, non-kernel items untouched) and for a single-item kernel under Pager; (2) the consequence the user relies on: "
        "for every grammar of the corpus (LALR(1) grammars, grammars that are LR(1) but not LALR(1) and need state splitting, "
        "under table types LALR and LALR_PAGER) the table the real compiler computes is conflict-free and the automaton over it "
        "accepts exactly the sentences, for every token string up to the bound (shared with C01); (3) the statement itself, per "
        "corpus grammar: an independent textbook canonical LR(1) construction (vlib/canon.py) is related to the computed table by "
        "equal transition paths, and the solver decides over ALL (state, item, lookahead) and (state, symbol) cells that each table "
        "state has the item core and exactly the transitions of its canonical states and that every item's lookahead set is the "
        "union of the canonical lookaheads - none lost, none invented - for LALR, LALR_PAGER and LALR_RN tables (harnesses canon_*)."
    ),
    residual="grammars outside the corpus (the comparison with canonical LR(1) is complete per grammar but the grammar axis is a finite corpus and the table construction runs concretely); closure / calc_states / propagate_follows as fixpoints over a whole automaton for arbitrary grammars; the weak-compatibility test of merge_state for kernels of 2+ items (CBMC exhausts 12 GB on the iterator-heavy code even with stand-in sets; its effect is covered only through the corpus grammars that need splitting: g4, g9 pager_g1, g10 lalrpop768, g11)",
    assumptions=["stand-ins: BTreeSet<SymbolIndex> -> 8-bit bitset with the same method names and ascending iteration; SymbolVec/ProdVec/ItemVec/Vec -> fixed arrays / fixed-capacity vector; itertools::chain -> Iterator::chain",
                 "see C01 for the corpus/automaton assumptions"],
    harnesses=[KD[n] for n in ("firsts_0", "firsts_1", "firsts_2", "firsts_3", "rn_len_0", "rn_len_2", "rn_len_3", "rn_len_4", "merge_lalr_2", "merge_pager_1", "kern_twin_must_fail")] + e4_harnesses(),
)

PROPS["C03"] = dict(
    level="other",
    explanation=(
        "Only the table-side mechanism of the GLR forest property is in reach: the right-nulled reduction rule. Kani/CBMC decides "
        "on the real (sliced) production_rn_lengths and LRItem::is_reducing that, for every production of length <= 4 with "
        "arbitrary nullability of its symbols, the right-nulled length is the least position after which every symbol is "
        "nullable, and that an item reduces exactly at the end of the production or - in an RN table - at a position after which "
        "the rest of the production is nullable (so elided trailing children always derive the empty string)."
    ),
    residual="the GLR reducer/shifter (GSS on petgraph, Rc, nested BTreeMaps) - i.e. completeness and duplicate-freedom of the forest - and Forest/Tree index decoding (the leaf harnesses on the real Rc/RefCell/VecDeque SPPF did not finish within 25 minutes each)",
    assumptions=["stand-ins as in C04"],
    harnesses=[KD[n] for n in ("rn_len_0", "rn_len_2", "rn_len_3", "rn_len_4", "kern_twin_must_fail")],
)


F_GLRSPAN = ["rustemo/src/glr/parser.rs: GlrParser::reducer (statement `let span = if path.parents.is_empty() {..} else {..};`, sliced verbatim)"]


def gsh(name, what, **kw):
    return h("e2", "glrspan::proofs::" + name, what, "0..3 children with ordered symbolic spans (layout gaps allowed), 1-2 packed possibilities per child, symbolic root head span/position; unwind 8",
             F_GLRSPAN, timeout=900, mem_gb=8, cost=1, extra=NOMEM, **kw)


GLRSPAN = [gsh("glr_span_0", "GLR empty reduction span"), gsh("glr_span_1", "GLR solution span, 1 child"), gsh("glr_span_2", "GLR solution span, 2 children"),
           gsh("glr_span_3", "GLR solution span, 3 children"), gsh("glr_span_twin_must_fail", "vacuity twin (must FAIL)", expect_fail=True)]
PROPS["C13"]["harnesses"] += GLRSPAN
PROPS["C13"]["explanation"] += " (4) GLR: the span given to a new solution in the reducer (sliced) runs from the first child's start to the last child's end; an empty solution gets the zero-width span at the end of the root head's span."
PROPS["C13"]["residual"] = "the rest of GLR span threading (token spans created by the shifter, spans of heads created for lexical ambiguity); ordering/non-overlap of all leaves of a whole tree as a global statement (follows from the step facts by induction, not decided as a whole)"


F_GROUP = ["rustemo-compiler/src/table/mod.rs: LRState::group_per_next_symbol (whole function, sliced verbatim)"]
GROUP = [
    h("e2", "groupsym::proofs::group_3_items", "max_prior_for_term = max priority of the productions shifting the terminal in the state; items grouped by the symbol after the dot",
      "3 items over 3 productions of length 2 with symbolic symbols (3 terminals, 2 non-terminals), priorities 0..=99, any dot positions; unwind 6", F_GROUP, timeout=900, mem_gb=10, cost=2, extra=NOMEM),
    h("e2", "groupsym::proofs::group_twin_must_fail", "vacuity twin (must FAIL)", "-", F_GROUP, timeout=900, mem_gb=8, cost=1, extra=NOMEM, expect_fail=True),
]
PROPS["C05"]["harnesses"] += GROUP
PROPS["C05"]["explanation"] += " The shift priority itself (LRState::group_per_next_symbol, sliced) is decided to be the maximum priority of the productions in which the terminal follows the dot in the state."
PROPS["C04"]["harnesses"] += [GROUP[0]]


# the language-level effect of the grammar front end (EMPTY removal, sugar expansion) on corpus grammars
E4Q = {x["name"].split("::")[-1]: x for x in e4_harnesses()}
PROPS["C09"]["harnesses"] += [E4Q[n] for n in ("lr_g20_empty_trailing_q", "lr_g7_sugar_q", "lr_g5_opt_list_q", "lr_g20_empty_trailing_t", "lr_g7_sugar_t")]
PROPS["C09"]["explanation"] += " For three corpus grammars that use EMPTY inside and after other symbols, ?, *, +[separator] sugar, the language of the grammar the compiler actually analysed (automaton over its table, all token strings up to the bound) equals the language of the written grammar (independent Earley reference built from the written productions)."
PROPS["C01"]["harnesses"] = e4_harnesses()
PROPS["C04"]["harnesses"] = [x for x in PROPS["C04"]["harnesses"] if x["crate"] != "e4"] + e4_harnesses() + canon_harnesses()

PROPS["C16"]["explanation"] += " As a by-product of regenerating the encodings, the real front end, table construction and generator are run natively on every corpus grammar (about 40 grammar/setting pairs); a panic there is reported as a C16 violation with the grammar as replay (a concrete falsification, not a solver verdict); a diagnostic (Err) is not."
