"""Property -> harnesses. Each harness entry states what it decides, its bounds, the real
functions it encodes and its resource caps. Tiers: quick (every change) / thorough."""

Q = ("quick", "thorough")
T = ("thorough",)

STUBS_COMMON = [
    "stub: std::env::var_os -> None (the dev-profile log! macro consults RUSTEMO_TRACE; tracing is not a subject)",
]


def h(crate, name, decides, bounds, functions, tiers=Q, timeout=1200, mem_gb=10, stubbing=False, extra=(), cost=1, expect_fail=False, **kw):
    d = dict(crate=crate, name=name, decides=decides, bounds=bounds, functions=list(functions), tiers=tiers,
             timeout=timeout, mem_gb=mem_gb, stubbing=stubbing, extra=list(extra), cost=cost, expect_fail=expect_fail)
    d.update(kw)
    return d


# Pointer-validity checks are switched off for slice harnesses: the sliced code and the
# stand-ins are safe Rust (the crates forbid unsafe code); bounds, overflow, unwrap and
# explicit assert!/panic! checks stay on.
NOMEM = ["-Z", "unstable-options", "--no-memory-safety-checks"]

CALC = ["rustemo-compiler/src/table/mod.rs: LRTable::calculate_reductions (body of `for follow_symbol in ..`, sliced verbatim)"]
RES_BOUNDS = "cell length <= 3 (concrete shape per harness), priorities 0..=99, all associativity/nops/nopse/prefer_* /algo combinations, unwind 8"


def res(name, what, tiers=Q, cost=2, **kw):
    return h("e2", "resolve::proofs::" + name, what, RES_BOUNDS, CALC, tiers=tiers, timeout=900, mem_gb=8, cost=cost, extra=NOMEM, **kw)


PROPS = {}

PROPS["C05"] = dict(
    level="other",
    explanation=(
        "Bounded model checking (Kani/CBMC) of the real conflict-resolution code of LRTable::calculate_reductions, "
        "sliced byte-for-byte from /repo on every run and compiled against stand-in container types. For every cell "
        "shape ([], [Shift], [Accept], [Reduce], [Reduce,Reduce], [Shift,Reduce], [Shift,Reduce,Reduce], [Accept,Reduce]) "
        "the solver decides, for all priorities 0..=99 and all associativity / nops / nopse / prefer_shifts / "
        "prefer_shifts_over_empty / LR-GLR combinations, that the kept actions equal the documented decision table and "
        "that no assert!/panic! in the code is reachable."
    ),
    residual="keyword->meta-data mapping (constant functions) and the end-to-end operator-grammar tree claim (see E4 harnesses under C05 when present)",
    assumptions=[
        "pre-state cells satisfy the invariant of reachable cells: coexisting entries have equal priority; a shift coexists with a reduction only if the terminal has no associativity",
        "stand-ins: TermVec<Vec<Action>> -> one-cell array of real Vec<Action>; BTreeMap max_prior_for_term -> single value; Grammar/Production/Terminal/Settings -> structs with the mentioned fields only",
        "priorities bounded by 99 (documented terminal maximum; the comparison logic is width-independent)",
    ],
    harnesses=[
        res("res_empty_cell", "empty cell: the reduction is registered"),
        res("res_shift", "S/R against a Shift: priority, production associativity, prefer_shifts(_over_empty), nops/nopse"),
        res("res_accept", "S/R against Accept (default priority)"),
        res("res_reduce", "R/R against one reduction: priority; LR non-empty over empty; GLR keeps ties"),
        res("res_reduce2", "R/R against two tied reductions"),
        res("res_shift_reduce", "new reduction into an unresolved [Shift, Reduce] cell; never aborts"),
        res("res_shift_reduce2", "new reduction into [Shift, Reduce, Reduce]", tiers=T),
        res("res_accept_reduce", "new reduction into [Accept, Reduce]", tiers=T),
        res("res_shift_termassoc", "terminal-level associativity overrides the production's (left/reduce keeps the reduction, right/shift keeps the shift)"),
        res("res_accept_termassoc", "terminal-level associativity against Accept", tiers=T),
        res("res_reduce_emptytie", "LR tie among empty reductions only is reported as a conflict, not silently resolved"),
        res("res_reduce2_emptytie", "same with two existing empty reductions", tiers=T),
        res("res_shift_reduce_emptytie", "same with a shift present", tiers=T),
        res("res_twin_must_fail", "vacuity twin (must FAIL)", expect_fail=True, cost=1),
    ],
)
