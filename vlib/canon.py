"""Independent canonical LR(1) reference for C04 (written from the textbook construction, shares
no code with /repo): builds the canonical LR(1) automaton of the dumped grammar, relates its
states to the states of the table the real compiler computed by following equal transition
paths from the initial state, and returns per table state / item the UNION of the canonical
lookaheads, plus per table state the union and the intersection of the canonical transition
symbol sets. The equality `table == reference` is then discharged by the solver over all
(state, item, lookahead) and (state, symbol) cells (harness emitted by gen_e4)."""


class CanonError(Exception):
    pass


def first_sets(g):
    NT = len(g["terminals"])
    prods = [(NT + p["nt"], tuple(p["rhs"])) for p in g["productions"]]
    nullable, first = set(), {}
    changed = True
    while changed:
        changed = False
        for lhs, rhs in prods:
            f = first.setdefault(lhs, set())
            n0 = len(f)
            allnull = True
            for x in rhs:
                if x < NT:
                    f.add(x)
                    allnull = False
                    break
                f |= first.get(x, set())
                if x not in nullable:
                    allnull = False
                    break
            if allnull and lhs not in nullable:
                nullable.add(lhs)
                changed = True
            if len(f) != n0:
                changed = True
    return prods, nullable, first


def canonical(d):
    g, t = d["grammar"], d["table"]
    if g.get("augmented_layout_index") is not None:
        raise CanonError("grammar with a Layout rule (two initial states) is outside this reference")
    NT = len(g["terminals"])
    prods, nullable, first = first_sets(g)
    by_lhs = {}
    for i, (lhs, rhs) in enumerate(prods):
        by_lhs.setdefault(lhs, []).append(i)

    def first_of(seq, la):
        out = set()
        for x in seq:
            if x < NT:
                out.add(x)
                return out
            out |= first.get(x, set())
            if x not in nullable:
                return out
        out.add(la)
        return out

    def closure(items):
        items = set(items)
        work = list(items)
        while work:
            p, dot, la = work.pop()
            rhs = prods[p][1]
            if dot < len(rhs) and rhs[dot] >= NT:
                for la2 in first_of(rhs[dot + 1:], la):
                    for q in by_lhs.get(rhs[dot], []):
                        it = (q, 0, la2)
                        if it not in items:
                            items.add(it)
                            work.append(it)
        return frozenset(items)

    def goto(state, x):
        return closure({(p, dot + 1, la) for (p, dot, la) in state if dot < len(prods[p][1]) and prods[p][1][dot] == x})

    aug = [i for i, (lhs, _) in enumerate(prods) if lhs == g["augmented_index"]]
    if len(aug) != 1:
        raise CanonError("no unique augmented production")
    c0 = closure({(aug[0], 0, g["stop_index"])})

    def t_next(ts, x):
        st = t["states"][ts]
        if x < NT:
            tg = [a[1] for a in st["actions"][x] if a[0] == "S"]
            return tg[0] if tg else None
        return st["gotos"][x - NT]

    # relation canonical state ~ table state: equal transition paths from the initial states
    rel, work, problems = {(c0, 0)}, [(c0, 0)], []
    while work:
        c, ts = work.pop()
        syms = {prods[p][1][dot] for (p, dot, la) in c if dot < len(prods[p][1])}
        for x in syms:
            # an explicit STOP shift is an Accept in the table, not a transition
            if x == g["stop_index"]:
                continue
            tn = t_next(ts, x)
            if tn is None:
                problems.append("table state %d lacks the transition on symbol %d its canonical state has" % (ts, x))
                continue
            pair = (goto(c, x), tn)
            if pair not in rel:
                rel.add(pair)
                work.append(pair)
        if len(rel) > 20000:
            raise CanonError("canonical automaton too large")
    NS = len(t["states"])
    la_union = [dict() for _ in range(NS)]       # (prod, dot) -> set of lookaheads
    tr_union = [set() for _ in range(NS)]
    tr_inter = [None for _ in range(NS)]
    cores_ok = [True] * NS
    for c, ts in rel:
        core = {(p, dot) for (p, dot, la) in c}
        tcore = {(it["prod"], it["pos"]) for it in t["states"][ts]["items"]}
        if core != tcore:
            cores_ok[ts] = False
        for (p, dot, la) in c:
            la_union[ts].setdefault((p, dot), set()).add(la)
        syms = {prods[p][1][dot] for (p, dot, la) in c if dot < len(prods[p][1])} - {g["stop_index"]}
        tr_union[ts] |= syms
        tr_inter[ts] = syms if tr_inter[ts] is None else (tr_inter[ts] & syms)
    related = {ts for _, ts in rel}
    return dict(NT=NT, NS=NS, la_union=la_union, tr_union=tr_union, tr_inter=tr_inter, cores_ok=cores_ok,
                related=related, n_canonical=len({c for c, _ in rel}), problems=problems)


def emit(name, d):
    """Rust module with the table side (from the dump of the real compiler) and the reference
    side as constant arrays, and the harness text."""
    g, t = d["grammar"], d["table"]
    r = canonical(d)
    NT, NS = r["NT"], r["NS"]
    NSYM = NT + len(g["nonterminals"])
    if NSYM > 64:
        raise CanonError("more than 64 symbols")
    MAXI = max(len(st["items"]) for st in t["states"])

    def mask(xs):
        m = 0
        for x in xs:
            m |= 1 << x
        return m

    tab_la, ref_la, nitems, tab_tr, ref_tr_u, ref_tr_i, ok = [], [], [], [], [], [], []
    for ts, st in enumerate(t["states"]):
        row_t, row_r = [], []
        for it in st["items"]:
            row_t.append(mask(it["follow"]))
            row_r.append(mask(r["la_union"][ts].get((it["prod"], it["pos"]), ())))
        nitems.append(len(st["items"]))
        row_t += [0] * (MAXI - len(row_t))
        row_r += [0] * (MAXI - len(row_r))
        tab_la.append(row_t)
        ref_la.append(row_r)
        tsyms = {x for x in range(NT) if any(a[0] == "S" for a in st["actions"][x])} | {NT + i for i, x in enumerate(st["gotos"]) if x is not None}
        tab_tr.append(mask(tsyms))
        ref_tr_u.append(mask(r["tr_union"][ts]))
        ref_tr_i.append(mask(r["tr_inter"][ts] or ()))
        ok.append(r["cores_ok"][ts] and ts in r["related"])

    def arr2(a):
        return "[" + ",".join("[" + ",".join("%d" % x for x in row) + "]" for row in a) + "]"

    def arr1(a):
        return "[" + ",".join(("%d" % x) if not isinstance(x, bool) else ("true" if x else "false") for x in a) + "]"

    any_multi = any(bin(m).count("1") >= 2 for row in tab_la for m in row)
    text = """
pub mod canon_%(name)s {
    pub const NS: usize = %(NS)d;
    pub const NT: usize = %(NT)d;
    pub const NSYM: usize = %(NSYM)d;
    pub const MAXI: usize = %(MAXI)d;
    /// lookahead bit-sets of the items of the table the real compiler computed (dump hook)
    pub static TAB_LA: [[u64; MAXI]; NS] = %(tab_la)s;
    /// union of the lookaheads of the same item over the canonical LR(1) states the table state stands for
    pub static REF_LA: [[u64; MAXI]; NS] = %(ref_la)s;
    pub static NITEMS: [usize; NS] = %(nitems)s;
    pub static TAB_TR: [u64; NS] = %(tab_tr)s;
    pub static REF_TR_UNION: [u64; NS] = %(ref_u)s;
    pub static REF_TR_INTER: [u64; NS] = %(ref_i)s;
    /// table state reachable by a canonical path and with the item core of its canonical states
    pub static CORE_OK: [bool; NS] = %(ok)s;
    pub const PROBLEMS: usize = %(nprob)d;
}
""" % dict(name=name, NS=NS, NT=NT, NSYM=NSYM, MAXI=MAXI, tab_la=arr2(tab_la), ref_la=arr2(ref_la), nitems=arr1(nitems),
           tab_tr=arr1(tab_tr), ref_u=arr1(ref_tr_u), ref_i=arr1(ref_tr_i), ok=arr1(ok), nprob=len(r["problems"]))
    harness = """#[kani::proof]
pub fn canon_%(name)s() {
    use crate::tables::canon_%(name)s::*;
    let s: usize = kani::any();
    let i: usize = kani::any();
    let la: usize = kani::any();
    let x: usize = kani::any();
    kani::assume(s < NS && i < NITEMS[s] && la < NT && x < NSYM);
    assert!(PROBLEMS == 0, "C04 every transition of a canonical LR(1) state exists in the table state standing for it");
    assert!(CORE_OK[s], "C04 a table state stands for canonical LR(1) states with the same item core");
    let t = (TAB_LA[s][i] >> la) & 1 == 1;
    let r = (REF_LA[s][i] >> la) & 1 == 1;
    assert!(!r || t, "C04 no lookahead of a canonical LR(1) state is lost in the table state standing for it");
    assert!(!t || r, "C04 no lookahead is invented: every lookahead of a table item belongs to a canonical LR(1) state it stands for");
    let tt = (TAB_TR[s] >> x) & 1 == 1;
    assert!(tt == ((REF_TR_UNION[s] >> x) & 1 == 1) && tt == ((REF_TR_INTER[s] >> x) & 1 == 1), "C04 a table state has exactly the transitions of its canonical LR(1) states");
    kani::cover!(t && r, "an item lookahead present on both sides");
%(cov)s    kani::cover!(true, "end of harness reachable");
}
""" % dict(name=name, cov='    kani::cover!(TAB_LA[s][i].count_ones() >= 2, "an item with several lookaheads");\n' if any_multi else "")
    stats = dict(table_states=NS, canonical_states=r["n_canonical"], related_pairs=len(r["related"]), max_items=MAXI)
    # native pre-evaluation, for the log only (the verdict is the solver's)
    stats["native_mismatch_cells"] = sum(1 for a, b in zip(tab_la, ref_la) for x_, y_ in zip(a, b) if x_ != y_) + sum(1 for a, b, c in zip(tab_tr, ref_tr_u, ref_tr_i) if not (a == b == c)) + len(r["problems"]) + sum(1 for o in ok if not o)
    return text, harness, stats
