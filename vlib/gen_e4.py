"""E4/E3 generator: runs the real compiler (native build of /repo, feature verif) on the
grammar corpus, reads the plain-data dump and emits Rust table modules plus reference
tables computed by an independent Earley recognizer."""
import itertools
import json
import os
import re
import shutil
import subprocess

import kani
import canon

VERIF = kani.VERIF
WORK = kani.WORK
VDUMP = os.path.join(WORK, "target-native", "release", "vdump")


class GenError(Exception):
    pass


class CompilerPanic(Exception):
    """The real compiler PANICKED (did not return a diagnostic) on a valid corpus grammar while
    the encodings were being regenerated. Not a solver verdict, but a concrete, replayable
    falsification of 'the compiler never panics' (C16); for every other property it is an
    encoding failure (inconclusive)."""

    def __init__(self, grammar, args):
        super().__init__("compiler panicked on %s %s" % (grammar, " ".join(args)))
        self.grammar = grammar
        self.args = list(args)


def build_native():
    """(Re)builds vdump against /repo's current working tree."""
    env = dict(kani.ENV)
    env["CARGO_TARGET_DIR"] = os.path.join(WORK, "target-native")
    src = os.path.join("/repo", "Cargo.lock")
    dst = os.path.join(VERIF, "native", "Cargo.lock")
    if os.path.exists(src) and (not os.path.exists(dst) or open(src).read() != open(dst).read()):
        import shutil
        shutil.copyfile(src, dst)
    p = subprocess.run(["cargo", "build", "--offline", "--release"], cwd=os.path.join(VERIF, "native"), env=env, capture_output=True, text=True)
    if p.returncode != 0:
        raise GenError("native build of /repo with feature verif failed:\n" + p.stderr[-2000:])


def vdump(grammar, args=(), gen_dir=None):
    out = os.path.join(WORK, "dumps")
    os.makedirs(out, exist_ok=True)
    name = os.path.splitext(os.path.basename(grammar))[0]
    tag = "".join(a.strip("-").replace("=", "") for a in args)
    path = os.path.join(out, "%s-%s.json" % (name, tag or "default"))
    cmd = [VDUMP, grammar, "--out", path] + list(args)
    if gen_dir:
        cmd += ["--gen", gen_dir]
    p = subprocess.run(cmd, capture_output=True, text=True, env=kani.ENV)
    if not os.path.exists(path):
        raise GenError("vdump produced no dump for %s: %s" % (grammar, p.stderr[-500:]))
    d = json.load(open(path))
    d["_gen_rc"] = p.returncode
    d["_gen_err"] = p.stderr[-500:]
    return d


# ---- independent reference: Earley recognizer over the dumped grammar -----------------
class Ref:
    def __init__(self, g):
        self.nt = len(g["terminals"])
        self.empty = g["empty_index"]
        self.start = g["start_index"]
        self.prods = {}  # lhs symbol -> list of rhs tuples
        for p in g["productions"]:
            lhs = self.nt + p["nt"]
            self.prods.setdefault(lhs, []).append(tuple(p["rhs"]))
        # drop AUG / AUGL
        for aug in (g["augmented_index"], g.get("augmented_layout_index")):
            if aug is not None:
                self.prods.pop(aug, None)
        # productive non-terminals
        prod = set()
        changed = True
        while changed:
            changed = False
            for lhs, alts in self.prods.items():
                if lhs in prod:
                    continue
                for rhs in alts:
                    if all(s < self.nt or s in prod for s in rhs):
                        prod.add(lhs)
                        changed = True
                        break
        self.productive = prod
        self.alts = {lhs: [rhs for rhs in alts if all(s < self.nt or s in prod for s in rhs)] for lhs, alts in self.prods.items() if lhs in prod}

    def chart(self, toks):
        """Earley sets; returns list of sets (one per position) or shorter list if it died."""
        if self.start not in self.alts:
            return [set()]
        S = [set()]
        for rhs in self.alts[self.start]:
            S[0].add((self.start, rhs, 0, 0))
        for i in range(len(toks) + 1):
            work = list(S[i])
            while work:
                (lhs, rhs, dot, org) = work.pop()
                if dot < len(rhs):
                    sym = rhs[dot]
                    if sym >= self.nt:
                        for r2 in self.alts.get(sym, []):
                            it = (sym, r2, 0, i)
                            if it not in S[i]:
                                S[i].add(it)
                                work.append(it)
                        # nullable completion (Aycock-Horspool style): if sym completed at i from i
                        for (l2, r2, d2, o2) in list(S[i]):
                            if l2 == sym and d2 == len(r2) and o2 == i:
                                it = (lhs, rhs, dot + 1, org)
                                if it not in S[i]:
                                    S[i].add(it)
                                    work.append(it)
                else:
                    for (l2, r2, d2, o2) in list(S[org]):
                        if d2 < len(r2) and r2[d2] == lhs:
                            it = (l2, r2, d2 + 1, o2)
                            if it not in S[i]:
                                S[i].add(it)
                                work.append(it)
            if i < len(toks):
                nxt = set()
                for (lhs, rhs, dot, org) in S[i]:
                    if dot < len(rhs) and rhs[dot] == toks[i]:
                        nxt.add((lhs, rhs, dot + 1, org))
                S.append(nxt)
                if not nxt:
                    return S
        return S

    def analyse(self, toks):
        """-> (member, first_error_index). first_error_index = smallest k such that
        toks[:k+1] is not a prefix of any sentence; len(toks) if toks is a viable prefix."""
        S = self.chart(toks)
        first_err = len(toks)
        for k in range(1, len(S)):
            if not S[k]:
                first_err = k - 1
                break
        member = False
        if len(S) == len(toks) + 1 and S[-1]:
            member = any(lhs == self.start and dot == len(rhs) and org == 0 for (lhs, rhs, dot, org) in S[-1])
        if not toks and not S[0]:
            first_err = 0
        return member, first_err


def emit_tables(name, d, maxlen, partial=False):
    g = d["grammar"]
    t = d["table"]
    NT = len(g["terminals"])
    NN = len(g["nonterminals"])
    NS = len(t["states"])
    NP = len(g["productions"])
    if max(NT, NN, NS, NP) > 250:
        raise GenError("grammar %s too large for u8 tables" % name)

    def enc(a):
        if a[0] == "S":
            return "(1,%d,0)" % a[1]
        if a[0] == "R":
            return "(2,%d,%d)" % (a[1], a[2])
        return "(3,0,0)"

    cells = []
    cells2 = []
    for s in t["states"]:
        row, row2 = [], []
        for c in s["actions"]:
            row.append("(%d,%s)" % (len(c), enc(c[0]) if c else "(0,0,0)"))
            row2.append(enc(c[1]) if len(c) > 1 else "(0,0,0)")
        cells.append("[%s]" % ",".join(row))
        cells2.append("[%s]" % ",".join(row2))
    gotos = ["[%s]" % ",".join(str(x) if x is not None else "255" for x in s["gotos"]) for s in t["states"]]
    exp = ["&[%s]" % ",".join("(%d,%s)" % (a, "true" if f else "false") for a, f in s["sorted_terminals"]) for s in t["states"]]
    prod_nt = ",".join(str(p["nt"]) for p in g["productions"])
    prod_rhs = ",".join("&[%s]" % ",".join(str(s) for s in p["rhs"]) for p in g["productions"])

    ref = Ref(g)
    A = NT - 1
    offsets = [0]
    for n in range(maxlen + 1):
        offsets.append(offsets[-1] + A ** n)
    refs = []
    steps_max = 0
    stats = {"strings": 0, "sentences": 0, "cov_sentence3": False, "cov_incomplete2": False, "cov_inside3": False}
    for n in range(maxlen + 1):
        for idx in range(A ** n):
            toks = []
            x = idx
            for _ in range(n):
                toks.append(x % A + 1)
                x //= A
            member, fe = ref.analyse(toks)
            refs.append("(%s,%d)" % ("true" if member else "false", fe))
            stats["strings"] += 1
            stats["sentences"] += 1 if member else 0
            stats["cov_sentence3"] |= member and n >= 3
            stats["cov_incomplete2"] |= (not member) and n >= 2 and fe == n
            stats["cov_inside3"] |= (not member) and n >= 3 and fe + 1 < n
    out = []
    out.append("pub mod %s {" % name)
    out.append("    pub struct G;")
    out.append("    static CELLS: [[(u8,(u8,u8,u8)); %d]; %d] = [%s];" % (NT, NS, ",".join(cells)))
    out.append("    static CELLS2: [[(u8,u8,u8); %d]; %d] = [%s];" % (NT, NS, ",".join(cells2)))
    out.append("    static GOTOS: [[u8; %d]; %d] = [%s];" % (NN, NS, ",".join(gotos)))
    out.append("    static EXPECTED: [&[(u8,bool)]; %d] = [%s];" % (NS, ",".join(exp)))
    out.append("    static PROD_NT: [u8; %d] = [%s];" % (NP, prod_nt))
    out.append("    static PROD_RHS: [&[u8]; %d] = [%s];" % (NP, prod_rhs))
    out.append("    static REF: [(bool,u8); %d] = [%s];" % (len(refs), ",".join(refs)))
    out.append("    static OFFSETS: [usize; %d] = [%s];" % (len(offsets), ",".join(map(str, offsets))))
    out.append("    impl crate::drive::Tables for G {")
    out.append("        const NT: usize = %d; const NN: usize = %d; const NS: usize = %d; const NP: usize = %d;" % (NT, NN, NS, NP))
    out.append("        const START_SYM: u8 = %d; const MAXLEN: usize = %d; const PARTIAL: bool = %s;" % (g["start_index"], maxlen, "true" if partial else "false"))
    out.append("        fn cell(s: u8, t: u8) -> (u8,(u8,u8,u8)) { CELLS[s as usize][t as usize] }")
    out.append("        fn cell2(s: u8, t: u8) -> (u8,u8,u8) { CELLS2[s as usize][t as usize] }")
    out.append("        fn goto(s: u8, n: u8) -> u8 { GOTOS[s as usize][n as usize] }")
    out.append("        fn expected(s: u8) -> &'static [(u8,bool)] { EXPECTED[s as usize] }")
    out.append("        fn prod_nt(p: u8) -> u8 { PROD_NT[p as usize] }")
    out.append("        fn prod_rhs(p: u8) -> &'static [u8] { PROD_RHS[p as usize] }")
    out.append("        fn reference(i: usize) -> (bool,u8) { REF[i] }")
    out.append("        fn ref_offset(n: usize) -> usize { OFFSETS[n] }")
    out.append("    }")
    out.append("}")
    stats.update({"terminals": NT, "nonterminals": NN, "states": NS, "productions": NP, "conflicts": t["conflicts"]})
    return "\n".join(out), stats


E4_CORPUS = [
    # name, grammar file (relative to /verif/corpus), vdump args, maxlen quick, maxlen thorough
    dict(name="g1_expr", file="g1_expr.rustemo", args=[], nq=4, nt=5),
    dict(name="g2_nullable", file="g2_nullable.rustemo", args=[], nq=4, nt=6),
    dict(name="g3_lalr_not_slr", file="g3_lalr_not_slr.rustemo", args=[], nq=4, nt=6),
    dict(name="g3_lalr", file="g3_lalr_not_slr.rustemo", args=["--table", "lalr"], nq=4, nt=6),
    dict(name="g4_lr1_not_lalr", file="g4_lr1_not_lalr.rustemo", args=[], nq=3, nt=4),
    dict(name="g5_opt_list", file="g5_opt_list.rustemo", args=[], nq=4, nt=6),
    dict(name="g6_nest", file="g6_nest.rustemo", args=[], nq=5, nt=7),
    dict(name="g7_sugar", file="g7_sugar.rustemo", args=[], nq=4, nt=5),
    dict(name="g8_empty_mid", file="g8_empty_mid.rustemo", args=[], nq=5, nt=7),
    dict(name="g9_pager_g1", file="/repo/tests/src/special/pager_g1/pager_g1.rustemo", args=[], nq=4, nt=5),
    dict(name="g10_lalrpop768", file="/repo/tests/src/special/lalrpop768/lalrpop768.rustemo", args=[], nq=4, nt=5),
    dict(name="g11_lalr_rr", file="/repo/tests/src/special/lalr_reduce_reduce_conflict/lang.rustemo", args=[], nq=3, nt=4),
    dict(name="g12_follow_ctx", file="g12_follow_ctx.rustemo", args=[], nq=4, nt=5),
    dict(name="g12_lalr", file="g12_follow_ctx.rustemo", args=["--table", "lalr"], nq=4, nt=5),
    dict(name="g13_nullable_chain", file="g13_nullable_chain.rustemo", args=[], nq=4, nt=6),
    dict(name="g14_unary_chain", file="g14_unary_chain.rustemo", args=[], nq=4, nt=6),
    dict(name="g15_json_like", file="g15_json_like.rustemo", args=[], nq=4, nt=6),
    dict(name="g16_if_end", file="g16_if_end.rustemo", args=[], nq=4, nt=6),
    dict(name="g1_lalr", file="g1_expr.rustemo", args=["--table", "lalr"], nq=4, nt=5),
    dict(name="g17_two_ctx", file="g17_two_ctx.rustemo", args=[], nq=5, nt=6),
    dict(name="g17_lalr", file="g17_two_ctx.rustemo", args=["--table", "lalr"], nq=5, nt=6),
    dict(name="g18_two_ctx_deep", file="g18_two_ctx_deep.rustemo", args=[], nq=6, nt=7),
    dict(name="g19_deep_chain", file="g19_deep_chain.rustemo", args=[], nq=4, nt=5),
    dict(name="g19_lalr", file="g19_deep_chain.rustemo", args=["--table", "lalr"], nq=4, nt=5),
    dict(name="g20_empty_trailing", file="g20_empty_trailing.rustemo", args=[], nq=4, nt=6),
    dict(name="g21_split_rule", file="g21_split_rule.rustemo", args=[], nq=4, nt=6),
    dict(name="g22_pager_third_ctx", file="g22_pager_third_ctx.rustemo", args=[], nq=3, nt=4),  # seed C04-f
]

# table/grammar pairs compared with the canonical LR(1) reference only (GLR tables keep their
# conflicts, so the deterministic automaton harness does not apply)
CANON_ONLY = [
    dict(name="g22_glr_lalr", file="g22_pager_third_ctx.rustemo", args=["--glr", "--table", "lalr"]),
    dict(name="g22_glr_rn", file="g22_pager_third_ctx.rustemo", args=["--glr"]),
    dict(name="g4_glr_rn", file="g4_lr1_not_lalr.rustemo", args=["--glr"]),
    dict(name="g1_glr_rn", file="g1_expr.rustemo", args=["--glr"]),
    dict(name="g13_glr_rn", file="g13_nullable_chain.rustemo", args=["--glr"]),
    dict(name="glr_calc_rn", file="/repo/tests/src/glr/forest/calc.rustemo", args=["--glr"]),
]


_EXCL = [x for x in os.environ.get("VERIF_E4_EXCLUDE", "").split(",") if x]  # development only (first-result runs of seeds)
if _EXCL:
    E4_CORPUS[:] = [c for c in E4_CORPUS if not any(c["name"].startswith(x) for x in _EXCL)]


def generate_e4(tier):
    """Writes kani/e4/gen/{tables.rs,harnesses.rs}; returns evidence info + harness list."""
    import lrsim
    gen = os.path.join(VERIF, "kani", "e4", "gen")
    os.makedirs(gen, exist_ok=True)
    mods, harn, info = [], [], {}
    for c in E4_CORPUS:
        d = vdump(os.path.join(VERIF, "corpus", c["file"]), c["args"])  # os.path.join keeps an absolute c["file"]
        if "panic" in d:
            raise CompilerPanic(os.path.join(VERIF, "corpus", c["file"]), c["args"])
        if "error" in d:
            raise GenError("compiler rejected corpus grammar %s: %s" % (c["name"], d))
        # C04: the same table against the independent canonical LR(1) reference (vlib/canon.py)
        try:
            ctext, charn, cstats = canon.emit(c["name"], d)
        except canon.CanonError as e:
            raise GenError("canonical LR(1) reference failed on %s: %s" % (c["name"], e))
        mods.append(ctext)
        harn.append(charn)
        info["canon_" + c["name"]] = dict(cstats, grammar=c["file"], args=c["args"])
        # thorough bound: as deep as the reference table stays small (<= ~20k strings)
        A_ = len(d["grammar"]["terminals"]) - 1
        deep = {1: 12, 2: 10, 3: 8, 4: 7, 5: 6}.get(A_, 5 if A_ <= 7 else 4)
        for n, tag in ((c["nq"], "q"), (max(c["nt"], deep), "t")):
            if tag == "t" and tier != "thorough":
                continue
            name = "%s_%s" % (c["name"], tag)
            text, stats = emit_tables(name, d, n)
            # unwind bound: the longest run of the LR loop over all strings <= n, from a native
            # simulation of the same table (+ margin); a too small bound fails the unwinding
            # assertion and is reported as inconclusive, never as a pass.
            A = stats["terminals"] - 1
            maxsteps = 0
            for ln in range(n + 1):
                for idx in range(A ** ln):
                    toks, x = [], idx
                    for _ in range(ln):
                        toks.append(x % A + 1)
                        x //= A
                    _, _, steps = lrsim.lr_run(d, toks)
                    maxsteps = max(maxsteps, steps)
            unwind = max(maxsteps + 3, 18)
            mods.append(text)
            harn.append(
                "#[kani::proof]\n#[kani::unwind(%d)]\npub fn lr_%s() {\n    let (member, n, first_err) = crate::drive::run::<crate::tables::%s::G, %d, %d>();\n%s    kani::cover!(true, \"end of harness reachable\");\n}\n"
                % (unwind, name, name, n, maxsteps + 1,
                   ("    kani::cover!(member && n >= 3, \"a sentence of length >= 3\");\n" if stats["cov_sentence3"] else "")
                   + ("    kani::cover!(!member && n >= 2 && first_err == n, \"incomplete input: error at the end\");\n" if stats["cov_incomplete2"] else "")
                   + ("    kani::cover!(!member && n >= 3 && first_err + 1 < n, \"error inside the input\");\n" if stats["cov_inside3"] else ""))
            )
            stats.update({"maxlen": n, "unwind": unwind, "grammar": c["file"], "args": c["args"]})
            info[name] = stats
    for c in CANON_ONLY:
        d = vdump(os.path.join(VERIF, "corpus", c["file"]), c["args"])
        if "panic" in d:
            raise CompilerPanic(os.path.join(VERIF, "corpus", c["file"]), c["args"])
        if "error" in d:
            raise GenError("compiler rejected corpus grammar %s: %s" % (c["name"], d))
        try:
            ctext, charn, cstats = canon.emit(c["name"], d)
        except canon.CanonError as e:
            raise GenError("canonical LR(1) reference failed on %s: %s" % (c["name"], e))
        mods.append(ctext)
        harn.append(charn)
        info["canon_" + c["name"]] = dict(cstats, grammar=c["file"], args=c["args"])
    open(os.path.join(gen, "tables.rs"), "w").write("\n".join(mods) + "\n")
    open(os.path.join(gen, "harnesses.rs"), "w").write("\n".join(harn) + "\n")
    return info


# ---- C16 diagnostic corpus: grammars the compiler must answer with a parser or an Err ------
DIAG_ARGS = [[], ["--glr"], ["--table", "lalr"], ["--no-pse"], ["--prefer-shifts"], ["--glr", "--table", "lalr", "--arrays"]]


def run_diag_corpus():
    """Runs the real public entry point (Settings::process_grammar, through vdump --gen, under
    catch_unwind) on every grammar of /verif/corpus/diag x DIAG_ARGS. Returns one record per run:
    outcome in {parser, diagnostic, panic, abort, timeout}. A concrete run of the real compiler -
    a falsification device for C16, not a solver verdict."""
    import glob
    build_native()
    recs = []
    root = os.path.join(WORK, "diag")
    if os.path.exists(root):
        shutil.rmtree(root)
    for f in sorted(glob.glob(os.path.join(VERIF, "corpus", "diag", "*.rustemo"))):
        base = os.path.basename(f)
        for i, args in enumerate(DIAG_ARGS):
            out = os.path.join(root, "%s-%d" % (base[:-8], i))
            os.makedirs(out)
            g = os.path.join(out, base)
            shutil.copyfile(f, g)
            cmd = [VDUMP, g, "--out", os.path.join(out, "dump.json"), "--gen", os.path.join(out, "gen")] + args
            try:
                p = subprocess.run(cmd, capture_output=True, text=True, env=dict(kani.ENV, RUST_BACKTRACE="0"), timeout=120)
                rc, err = p.returncode, p.stderr
            except subprocess.TimeoutExpired:
                rc, err = "timeout", ""
            # only the outcome of process_grammar (the public entry point) counts; the dump hook is ours
            outcome = {0: "parser", 3: "diagnostic", 4: "panic", "timeout": "timeout"}.get(rc, "abort")
            where = ""
            if outcome in ("panic", "abort"):
                ms = re.findall(r"panicked at ([^\n]*?):\d+:\d+:\n([^\n]*)", err)
                if ms:
                    where = "%s: %s" % (ms[-1][0].replace("/repo/", ""), ms[-1][1].strip()[:160])
                else:
                    where = "rc=%s %s" % (rc, err[-200:])
            recs.append({"grammar": base, "args": args, "outcome": outcome, "where": where})
    return recs
