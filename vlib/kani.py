"""Running Kani harnesses, parsing CBMC verdicts, concrete playback.

A harness result is one of
  pass          VERIFICATION SUCCESSFUL, no solver error, every cover satisfied
  fail          at least one non-unwinding property FAILED (candidate violation)
  inconclusive  timeout / out of memory / solver error / unwinding assertion failed /
                cover unsatisfiable (vacuity) / build error
Nothing but `pass` is ever reported as success.
"""
import fcntl
import json
import os
import re
import shutil
import subprocess
import time

VERIF = os.path.dirname(os.path.dirname(os.path.abspath(__file__)))
WORK = os.path.join(VERIF, ".work")
SLOTS = int(os.environ.get("VERIF_SLOTS", "5"))

ENV = dict(os.environ)
ENV["CARGO_NET_OFFLINE"] = "true"
ENV.pop("RUSTEMO_TRACE", None)
ENV.setdefault("CARGO_TERM_COLOR", "never")


class Slot:
    """A cross-process concurrency slot: one flock'ed file + its own target dirs.

    At most SLOTS CBMC processes run at once on the machine, whichever check
    started them, and concurrent cargo invocations never share a target dir."""

    def __init__(self):
        self.idx = None
        self.fh = None

    def __enter__(self):
        d = os.path.join(WORK, "slots")
        os.makedirs(d, exist_ok=True)
        while True:
            for i in range(SLOTS):
                fh = open(os.path.join(d, "slot-%d.lock" % i), "w")
                try:
                    fcntl.flock(fh, fcntl.LOCK_EX | fcntl.LOCK_NB)
                    self.idx, self.fh = i, fh
                    return self
                except OSError:
                    fh.close()
            time.sleep(0.5)

    def __exit__(self, *a):
        fcntl.flock(self.fh, fcntl.LOCK_UN)
        self.fh.close()

    def target_dir(self, crate):
        d = os.path.join(WORK, "slots", str(self.idx), crate)
        os.makedirs(d, exist_ok=True)
        return d


CHECK_RE = re.compile(
    r"^Check (\d+): (.+)\n\t - Status: (\w+)\n\t - Description: \"(.*)\"\n\t - Location: (.*)$",
    re.M,
)


def parse_output(out):
    """Parses the regular-format output of one `cargo kani --harness` run."""
    r = {
        "checks": [],
        "verdict": None,
        "n_checks": 0,
        "n_failed": 0,
        "n_unreachable": 0,
        "n_undetermined": 0,
        "covers_total": 0,
        "covers_satisfied": 0,
        "solver_time_s": 0.0,
        "verification_time_s": None,
        "errors": [],
    }
    for m in CHECK_RE.finditer(out):
        r["checks"].append(
            {
                "id": m.group(2),
                "status": m.group(3),
                "description": m.group(4).strip('"'),
                "location": m.group(5),
            }
        )
    if "VERIFICATION:- SUCCESSFUL" in out:
        r["verdict"] = "SUCCESSFUL"
    elif "VERIFICATION:- FAILED" in out:
        r["verdict"] = "FAILED"
    for m in re.finditer(r"^Runtime Solver: ([0-9.e+-]+)s", out, re.M):
        try:
            r["solver_time_s"] += float(m.group(1))
        except ValueError:
            pass
    m = re.search(r"^Verification Time: ([0-9.e+-]+)s", out, re.M)
    if m:
        r["verification_time_s"] = float(m.group(1))
    props = [c for c in r["checks"] if ".cover." not in c["id"]]
    covers = [c for c in r["checks"] if ".cover." in c["id"]]
    r["n_checks"] = len(props)
    r["n_failed"] = sum(1 for c in props if c["status"] == "FAILURE")
    r["n_unreachable"] = sum(1 for c in props if c["status"] == "UNREACHABLE")
    r["n_undetermined"] = sum(1 for c in props if c["status"] == "UNDETERMINED")
    r["covers_total"] = len(covers)
    r["covers_satisfied"] = sum(1 for c in covers if c["status"] == "SATISFIED")
    r["covers_unsat"] = [c["description"] for c in covers if c["status"] != "SATISFIED"]
    if re.search(r"Status: ERROR", out):
        r["errors"].append("solver reported Status: ERROR (out of memory?)")
    if re.search(r"out of memory|std::bad_alloc|memory exhausted|Killed", out, re.I):
        r["errors"].append("out of memory")
    if re.search(r"^error(\[E\d+\])?:", out, re.M) and r["verdict"] is None:
        r["errors"].append("build error")
    if "CBMC failed" in out or "CBMC timed out" in out:
        r["errors"].append("CBMC failed / timed out")
    return r


def is_unwind_failure(c):
    return c["status"] == "FAILURE" and c["description"].startswith("unwinding assertion")


def classify(parsed, rc, expect_fail=False):
    """-> (status, reason, failed_checks)"""
    failed = [c for c in parsed["checks"] if c["status"] == "FAILURE" and ".cover." not in c["id"]]
    real = [c for c in failed if not is_unwind_failure(c) and "BOUND:" not in c["description"]]
    unwind = [c for c in failed if is_unwind_failure(c) or "BOUND:" in c["description"]]
    if rc == 124:
        return "inconclusive", "timeout", []
    if parsed["errors"]:
        return "inconclusive", "; ".join(parsed["errors"]), []
    if parsed["verdict"] is None:
        return "inconclusive", "no verdict in output (rc=%s)" % rc, []
    if unwind:
        return "inconclusive", "bound too small: %s (%s)" % (unwind[0]["description"], unwind[0]["location"]), []
    if real:
        return "fail", "%d failed checks" % len(real), real
    if parsed["verdict"] == "FAILED":
        return "inconclusive", "FAILED verdict without a failed check (undetermined=%d)" % parsed["n_undetermined"], []
    if parsed["covers_unsat"]:
        return "inconclusive", "vacuity: cover(s) not satisfied: %s" % parsed["covers_unsat"], []
    return "pass", "", []


def run_harness(crate, harness, timeout_s=1200, mem_gb=12, extra=(), log_dir=None, crate_dir=None):
    """Runs one harness under a slot, a virtual-memory cap and a timeout."""
    crate_dir = crate_dir or os.path.join(VERIF, "kani", crate)
    log_dir = log_dir or os.path.join(WORK, "logs")
    os.makedirs(log_dir, exist_ok=True)
    log = os.path.join(log_dir, "%s-%s.log" % (crate, harness.replace("::", ".")))
    t0 = time.time()
    with Slot() as slot:
        td = slot.target_dir(crate)
        cmd = (
            "ulimit -v %d; exec timeout -k 10 %d cargo kani --target-dir %s --harness %s --exact %s"
            % (int(mem_gb * 1024 * 1024), int(timeout_s), td, harness, " ".join(extra))
        )
        with open(log, "w") as fh:
            p = subprocess.run(["bash", "-c", cmd], cwd=crate_dir, env=ENV, stdout=fh, stderr=subprocess.STDOUT)
    wall = time.time() - t0
    out = open(log, errors="replace").read()
    parsed = parse_output(out)
    status, reason, failed = classify(parsed, p.returncode)
    return {
        "crate": crate,
        "harness": harness,
        "status": status,
        "reason": reason,
        "failed_checks": failed,
        "parsed": parsed,
        "wall_s": round(wall, 1),
        "rc": p.returncode,
        "log": log,
        "mem_gb": mem_gb,
        "timeout_s": timeout_s,
    }


PB_BLOCK = re.compile(r"```\n(.*?)```", re.S)


def playback(crate, harness, extra=(), timeout_s=1800, mem_gb=14):
    """Re-runs a failed harness with `--concrete-playback=print`, writes the printed unit
    tests for the failed *assertions* (covers are skipped) into a separate test module of a
    scratch copy of the harness crate, and executes them natively (`cargo kani playback`,
    which builds with cfg(kani) and Kani's native library). Returns the tests with their
    native outcome."""
    src = os.path.join(VERIF, "kani", crate)
    name = "%s-%s" % (crate, harness.replace("::", "."))
    dst = os.path.join(WORK, "pb", name)
    if os.path.exists(dst):
        shutil.rmtree(dst)
    shutil.copytree(src, dst, ignore=shutil.ignore_patterns("target", "target-kani"))
    with Slot() as slot:
        cmd = (
            "ulimit -v %d; exec timeout -k 10 %d cargo kani --target-dir %s --harness %s --exact "
            "-Z concrete-playback --concrete-playback=print --output-format terse %s"
            % (int(mem_gb * 1024 * 1024), int(timeout_s), slot.target_dir(crate), harness, " ".join(extra))
        )
        p = subprocess.run(["bash", "-c", cmd], cwd=dst, env=ENV, capture_output=True, text=True)
        gen_out = p.stdout + p.stderr
        tests = []
        for blk in PB_BLOCK.findall(gen_out):
            m = re.search(r"/// Check for `(\w+)`: \"(.*)\"\s*\n", blk)
            f = re.search(r"fn (kani_concrete_playback_\w+)\(\)", blk)
            v = re.search(r"let concrete_vals: Vec<Vec<u8>> = vec!\[(.*?)\n\s*\];", blk, re.S)
            if not (m and f and v):
                continue
            if m.group(1) == "cover":
                continue
            tests.append({"test": f.group(1), "class": m.group(1), "description": m.group(2).strip('"'), "values": v.group(1)})
        # a separate test module, outside any module that shadows Vec / vec!
        body = ["#![allow(unused)]"]
        for t in tests:
            body.append(
                "#[test]\nfn %s() {\n    let concrete_vals: std::vec::Vec<std::vec::Vec<u8>> = std::vec![%s\n    ];\n"
                "    kani::concrete_playback_run(concrete_vals, crate::%s);\n}\n"
                % (t["test"], re.sub(r"\bvec!\[", "std::vec![", t["values"]), harness)
            )
        open(os.path.join(dst, "src", "playback_tests.rs"), "w").write("\n".join(body))
        with open(os.path.join(dst, "src", "lib.rs"), "a") as fh:
            fh.write("\n#[cfg(all(test, kani))]\nmod playback_tests;\n")
        env = dict(ENV)
        env["CARGO_TARGET_DIR"] = os.path.join(WORK, "slots", str(slot.idx), "pb-native")
        results = []
        for t in tests:
            q = subprocess.run(
                ["bash", "-c", "exec timeout 900 cargo kani playback -Z concrete-playback -- playback_tests::%s" % t["test"]],
                cwd=dst, env=env, capture_output=True, text=True)
            out = q.stdout + q.stderr
            ran = re.search(r"test result: (ok|FAILED)\. (\d+) passed; (\d+) failed", out)
            failed_native = bool(ran and int(ran.group(3)) > 0)
            pm = re.search(r"panicked at ([^\n]*)\n([^\n]*)", out)
            results.append(
                {
                    "test": t["test"],
                    "check": {"class": t["class"], "description": t["description"]},
                    "values": re.sub(r"\s+", " ", t["values"]).strip(),
                    "native_ran": bool(ran and (int(ran.group(2)) + int(ran.group(3))) > 0),
                    "native_failed": failed_native,
                    "native_panic": (pm.group(1) + " " + pm.group(2)) if pm else None,
                    "native_tail": out[-1200:],
                }
            )
    return {"scratch": dst, "tests": results, "generator_tail": gen_out[-1500:]}
