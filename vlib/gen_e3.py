"""E3 generator (C08): runs the real generator on the corpus (both table layouts), keeps the
generated parser modules unchanged and emits harnesses comparing them with the dump."""
import os
import re
import shutil

import gen_e4
import kani

VERIF = kani.VERIF
WORK = kani.WORK

# name, grammar file, extra vdump args, tiers
E3_CORPUS = [
    dict(name="g2_nullable", file="/verif/corpus/g2_nullable.rustemo", args=[], quick=True),
    dict(name="g7_sugar", file="/verif/corpus/g7_sugar.rustemo", args=[], quick=True),
    dict(name="calc4", file="/repo/docs/src/tutorials/calculator/calculator4/src/calculator.rustemo", args=[], quick=True),
    dict(name="glr_calc", file="/repo/tests/src/glr/forest/calc.rustemo", args=["--glr"], quick=True),
    dict(name="custlex2", file="/repo/tests/src/lexer/custom_lexer/custom_lexer_2.rustemo", args=["--lexer", "custom"], quick=True),
    dict(name="custlex1", file="/repo/tests/src/lexer/custom_lexer/custom_lexer_1.rustemo", args=["--lexer", "custom"], quick=False),
    dict(name="g1_expr", file="/verif/corpus/g1_expr.rustemo", args=[], quick=False),
    dict(name="g9_pager", file="/repo/tests/src/special/pager_g1/pager_g1.rustemo", args=[], quick=False),
    dict(name="json", file="/repo/examples/json/src/json.rustemo", args=[], quick=False),
    dict(name="layout", file="/repo/tests/src/layout/generic_tree/layout.rustemo", args=[], quick=True),
    dict(name="lexamb", file="/repo/tests/src/lexical_ambiguity/priorities/priorities.rustemo", args=[], quick=True),  # try order != declaration order (seed C08-f)
    dict(name="glr_lexamb", file="/repo/tests/src/glr/lexical_ambiguity/longest_match_off/longest_match.rustemo", args=["--glr", "--ms=false", "--lm=false"], quick=False),
    dict(name="glr_g2", file="/verif/corpus/g2_nullable.rustemo", args=["--glr"], quick=False),
    dict(name="partial", file="/repo/tests/src/partial/partial.rustemo", args=["--prefer-shifts", "--partial"], quick=False),
    dict(name="g4_lalr", file="/verif/corpus/g4_lr1_not_lalr.rustemo", args=["--glr", "--table", "lalr"], quick=False),
]


def enum_variants(text, name):
    m = re.search(r"pub enum %s \{(.*?)\n\}" % name, text, re.S)
    if not m:
        raise gen_e4.GenError("generated file has no enum %s" % name)
    body = re.sub(r"#\[[^\]]*\]", "", m.group(1))
    return [v.strip() for v in body.split(",") if v.strip()]


def generate_e3(tier):
    gen = os.path.join(VERIF, "kani", "e3", "gen")
    os.makedirs(gen, exist_ok=True)
    mods, harn, info, names = [], [], {}, []
    for c in E3_CORPUS:
        if tier != "thorough" and not c["quick"]:
            continue
        if not os.path.exists(c["file"]):
            raise gen_e4.GenError("corpus grammar missing: %s" % c["file"])
        for layout, largs in (("fn", []), ("arr", ["--arrays"])):
            name = "%s_%s" % (c["name"], layout)
            out = os.path.join(WORK, "e3gen", name)
            if os.path.exists(out):
                shutil.rmtree(out)
            os.makedirs(out)
            # the generator names the module after the grammar file; copy to a unique name
            gfile = os.path.join(out, name + ".rustemo")
            shutil.copyfile(c["file"], gfile)
            d = gen_e4.vdump(gfile, c["args"] + largs + ["--builder", "generic"], gen_dir=out)
            if "panic" in d:
                raise gen_e4.CompilerPanic(c["file"], c["args"] + largs)
            if "error" in d:
                raise gen_e4.GenError("compiler rejected corpus grammar %s: %s" % (name, str(d)[:300]))
            pfile = os.path.join(out, name + ".rs")
            if d.get("_gen_rc") == 4:
                raise gen_e4.CompilerPanic(c["file"], c["args"] + largs + ["(generator)"])
            if d.get("_gen_rc") != 0 or not os.path.exists(pfile):
                raise gen_e4.GenError("generator failed on %s: rc=%s %s" % (name, d.get("_gen_rc"), d.get("_gen_err")))
            text = open(pfile).read()
            g, t, st = d["grammar"], d["table"], d["settings"]
            states = enum_variants(text, "State")
            toks = enum_variants(text, "TokenKind")
            prods = enum_variants(text, "ProdKind")
            nts = enum_variants(text, "NonTermKind")
            NS, NT, NN = len(t["states"]), len(g["terminals"]), len(g["nonterminals"])
            # ProdKind lists the productions except AUG / AUGL, in order
            aug = {g["augmented_index"] - NT}
            if g["augmented_layout_index"] is not None:
                aug.add(g["augmented_layout_index"] - NT)
            pk_of = {}
            k = 0
            for p in g["productions"]:
                if p["nt"] in aug:
                    continue
                pk_of[p["idx"]] = k
                k += 1
            # index <-> variant correspondence BY NAME (the generator names variants after the
            # table entries: terminal / non-terminal names, `<symbol>S<idx>`, `<NonTerm><kind|Pn>`);
            # that the discriminant equals the table index is asserted only where the generated
            # code relies on it (`state as usize`, `token as usize`; `nonterm as usize` in the
            # arrays layout). A table entry whose variant does not exist cannot be queried and
            # is excluded from the symbolic range.
            def sym_name(i):
                return g["terminals"][i]["name"] if i < NT else g["nonterminals"][i - NT]["name"]

            def opt(enum, names, have):
                return ",".join(("Some(%s::%s)" % (enum, n)) if n in have else "None" for n in names)

            state_names = ["%sS%d" % (sym_name(st_["symbol"]), st_["idx"]) for st_ in t["states"]]
            tok_names = [x["name"] for x in g["terminals"]]
            nt_names = [x["name"] for x in g["nonterminals"]]
            prod_names = []
            for p_ in g["productions"]:
                if p_["idx"] in pk_of:
                    prod_names.append(g["nonterminals"][p_["nt"]]["name"] + (p_["kind"] if p_["kind"] else "P%d" % (p_["ntidx"] + 1)))
            missing = [n for n in state_names if n not in states] + [n for n in tok_names if n not in toks]
            if missing:
                # a state or token of the table has no variant at all: no parser can be driven
                msg = "C08 the generated enums have no variant for table entries %s" % missing[:4]
                mods.append("pub mod %s {\n%s\n}\n" % (name, text))
                harn.append("\npub mod %s {\n%s}\n" % (name, "".join(
                    "    #[kani::proof]\n    pub fn %s() {\n        assert!(false, \"%s\");\n    }\n" % (q, msg) for q in ("actions", "gotos", "expected", "misc"))))
                info[name] = {"grammar": c["file"], "args": c["args"] + largs, "enum_mismatch": msg}
                names.append(name)
                continue

            def enc(a):
                if a[0] == "S":
                    return "(1,%d,0)" % a[1]
                if a[0] == "R":
                    if a[1] not in pk_of:
                        raise gen_e4.GenError("%s: reduction by an augmented production in the table" % name)
                    return "(2,%d,%d)" % (pk_of[a[1]], a[2])
                return "(3,0,0)"

            want_actions = ",".join("[%s]" % ",".join("&[%s]" % ",".join(enc(a) for a in cell) for cell in s["actions"]) for s in t["states"])
            want_gotos = ",".join("[%s]" % ",".join(str(x) if x is not None else "usize::MAX" for x in s["gotos"]) for s in t["states"])
            want_exp = ",".join("&[%s]" % ",".join("(%d,%s)" % (a, "true" if f else "false") for a, f in s["sorted_terminals"]) for s in t["states"])
            prod_nt = ",".join(str(p["nt"]) for p in g["productions"] if p["idx"] in pk_of)
            maxa = max([len(c2) for s in t["states"] for c2 in s["actions"]] + [1])
            maxe = max([len(s["sorted_terminals"]) for s in t["states"]] + [1])
            m = "crate::mods::%s" % name
            mods.append("pub mod %s {\n%s\n}\n" % (name, text))
            harn.append(
                """
pub mod {name} {{
    use super::*;
    use {m}::{{State, TokenKind, ProdKind, NonTermKind, PARSER_DEFINITION}};
    const STATES: [State; {NS}] = [{states}];
    const TOKENS: [TokenKind; {NT}] = [{toks}];
    const NONTERMS: [Option<NonTermKind>; {NN}] = [{nts}];
    const PRODS: [Option<ProdKind>; {NPK}] = [{prods}];
    /// ProdKind variant -> table production index (by name)
    fn prod_index(p: ProdKind) -> usize {{
        let mut i = 0;
        while i < {NPK} {{
            if PRODS[i] == Some(p) {{
                return i;
            }}
            i += 1;
        }}
        usize::MAX
    }}
    static WANT_ACTIONS: [[&[(usize, usize, usize)]; {NT}]; {NS}] = [{want_actions}];
    static WANT_GOTOS: [[usize; {NN}]; {NS}] = [{want_gotos}];
    static WANT_EXPECTED: [&[(usize, bool)]; {NS}] = [{want_exp}];
    static PROD_NT: [usize; {NPK}] = [{prod_nt}];

    /// every (state, token) action query = the computed cell, as a sequence
    #[kani::proof]
    #[kani::unwind({ua})]
    pub fn actions() {{
        let s: usize = kani::any();
        let t: usize = kani::any();
        kani::assume(s < {NS} && t < {NT});
        assert!(STATES[s] as usize == s && TOKENS[t] as usize == t, "C08 enums are in table order");
        let got = PARSER_DEFINITION.actions(STATES[s], TOKENS[t]);
        let want = WANT_ACTIONS[s][t];
        assert!(got.len() == want.len(), "C08 number of actions of a cell");
        let mut i = 0;
        while i < got.len() && i < {maxa} {{
            let e = match got[i] {{
                Action::Reduce(p, l) => (2usize, prod_index(p), l),
                a => enc!(a),
            }};
            assert!(e == want[i], "C08 action = computed action, in order");
            i += 1;
        }}
{cov_actions}
        std::mem::forget(got);
    }}

    /// every (state, non-terminal) goto that exists = the computed target
    #[kani::proof]
    #[kani::unwind(4)]
    pub fn gotos() {{
        let s: usize = kani::any();
        let n: usize = kani::any();
        kani::assume(s < {NS} && n < {NN});
        let want = WANT_GOTOS[s][n];
        kani::assume(want != usize::MAX);
        kani::assume(NONTERMS[n].is_some());
        let nt = NONTERMS[n].unwrap();
        {nt_order}
        let got = PARSER_DEFINITION.goto(STATES[s], nt);
        assert!(got as usize == want, "C08 goto = computed goto");
{cov_gotos}
    }}

    /// every expected-token query = the computed sorted terminals with finish flags
    #[kani::proof]
    #[kani::unwind({ue})]
    pub fn expected() {{
        let s: usize = kani::any();
        kani::assume(s < {NS});
        // the state is symbolic, but each call gets a concrete enum value (CBMC mis-models
        // the niche-encoded Option rows when the row itself is selected by a symbolic index:
        // the counterexamples it then reports do not reproduce natively)
        let got = match s {{
{dispatch}
            _ => unreachable!(),
        }};
        let want = WANT_EXPECTED[s];
        assert!(got.len() == want.len(), "C08 number of expected tokens");
        let mut i = 0;
        while i < got.len() && i < {maxe} {{
            assert!(got[i].0 as usize == want[i].0 && got[i].1 == want[i].1, "C08 expected token and finish flag, in order");
            i += 1;
        }}
{cov_expected}
        std::mem::forget(got);
    }}

    /// settings constants, layout state, production -> non-terminal mapping
    #[kani::proof]
    #[kani::unwind(4)]
    pub fn misc() {{
        assert!(<{m}::{defn} as ParserDefinition<State, ProdKind, TokenKind, NonTermKind>>::longest_match() == {lm}, "C08 longest_match setting");
        assert!(<{m}::{defn} as ParserDefinition<State, ProdKind, TokenKind, NonTermKind>>::grammar_order() == {go}, "C08 grammar_order setting");
        let l = <State as StateT>::default_layout();
        assert!(l.map(|s| s as usize) == {layout}, "C08 layout state");
        assert!(State::default() as usize == 0 && TokenKind::default() as usize == 0, "C08 start state and STOP are index 0");
        let p: usize = kani::any();
        kani::assume(p < {NPK});
        kani::assume(PRODS[p].is_some());
        let nt: NonTermKind = PRODS[p].unwrap().into();
        assert!(NONTERMS[PROD_NT[p]].map(|x| x as usize) == Some(nt as usize), "C08 production -> non-terminal");
    }}
}}
""".format(
                    name=name, m=m, NS=NS, NT=NT, NN=NN, NPK=k,
                    states=",".join("State::" + v for v in state_names), toks=",".join("TokenKind::" + v for v in tok_names),
                    nts=opt("NonTermKind", nt_names, nts), prods=opt("ProdKind", prod_names, prods),
                    cov_actions="".join(l for c_, l in (
                        (any(c2 and c2[0][0] == "R" for st_ in t["states"] for c2 in st_["actions"]), '        kani::cover!(want.len() >= 1 && want[0].0 == 2, "a reduction cell");\n'),
                        (any(not c2 for st_ in t["states"] for c2 in st_["actions"]), '        kani::cover!(want.len() == 0, "an empty cell");\n'),
                        (True, '        kani::cover!(true, "end of harness reachable");\n')) if c_),
                    cov_gotos="".join(l for c_, l in (
                        (any(x is not None for st_ in t["states"][1:] for x in st_["gotos"]), '        kani::cover!(s > 0, "goto from a non-initial state");\n'),
                        (True, '        kani::cover!(true, "end of harness reachable");\n')) if c_),
                    cov_expected="".join(l for c_, l in (
                        (any(len(st_["sorted_terminals"]) >= 2 for st_ in t["states"]), '        kani::cover!(want.len() >= 2, "state with several expected tokens");\n'),
                        (any(a_[0] > b_[0] for st_ in t["states"] for a_, b_ in zip(st_["sorted_terminals"][:3], st_["sorted_terminals"][1:4])), '        kani::cover!(want.len() >= 2 && want[0].0 > want[1].0 || want.len() >= 3 && want[1].0 > want[2].0 || want.len() >= 4 && want[2].0 > want[3].0, "state whose try order differs from declaration order");\n'),
                        (True, '        kani::cover!(true, "end of harness reachable");\n')) if c_),
                    nt_order=('assert!(nt as usize == n, "C08 the arrays layout indexes goto columns by the NonTermKind discriminant");' if layout == "arr" else "// functions layout: goto arms match by name"),
                    want_actions=want_actions, want_gotos=want_gotos, want_exp=want_exp, prod_nt=prod_nt,
                    ua=max(maxa + 3, NT + 3, k + 2, 8), ue=max(maxe + 3, 8), maxa=maxa, maxe=maxe,
                    dispatch="\n".join("            %d => PARSER_DEFINITION.expected_token_kinds(State::%s)," % (i, v) for i, v in enumerate(state_names)),
                    defn=re.search(r"pub struct (\w+ParserDefinition)", text).group(1),
                    lm="true" if st["lexical_disamb_longest_match"] else "false",
                    go="true" if st["lexical_disamb_grammar_order"] else "false",
                    layout=("Some(%d)" % t["layout_state"]) if t["layout_state"] is not None else "None",
                )
            )
            info[name] = {"grammar": c["file"], "args": c["args"] + largs, "states": NS, "terminals": NT, "nonterminals": NN,
                          "productions": k, "cells": NS * NT, "max_actions": maxa, "conflicts": t["conflicts"]}
            names.append(name)
    open(os.path.join(gen, "mods.rs"), "w").write("\n".join(mods))
    open(os.path.join(gen, "harnesses.rs"), "w").write("\n".join(harn))
    return info, names
