"""Native LR simulation over a dumped table (used only to sanity-check the reference
generator and to derive unwind bounds; never the deciding step of a check)."""


def lr_run(d, toks, partial=False):
    """-> (ok, error_pos, steps). Mirrors the LR loop with context-aware token lookup."""
    t = d["table"]
    g = d["grammar"]
    states = t["states"]
    stack = [0]
    pos = 0
    steps = 0
    n = len(toks)
    while True:
        steps += 1
        if steps > 10000:
            return None, pos, steps
        st = states[stack[-1]]
        kind = toks[pos] if pos < n else 0
        expected = [a for a, _ in st["sorted_terminals"]]
        if kind not in expected:
            if partial and 0 in expected:
                kind = 0
            else:
                return False, pos, steps
        cell = st["actions"][kind]
        if not cell:
            return False, pos, steps
        a = cell[0]
        if a[0] == "S":
            stack.append(a[1])
            pos += 1
        elif a[0] == "R":
            p = g["productions"][a[1]]
            if a[2]:
                del stack[-a[2]:]
            go = states[stack[-1]]["gotos"][p["nt"]]
            if go is None:
                return None, pos, steps
            stack.append(go)
        else:
            return True, pos, steps
