#!/usr/bin/env python3
"""Entry point of every check:  ./check <property> [--tier quick|thorough]

Exit codes: 0 property held on everything explored (possibly with KNOWN-FINDING lines);
            1 violation found (line `VIOLATION property=<id> replay=<path>`);
            2 inconclusive (encoding / bound / resource problem) - never printed as VIOLATION.
"""
import argparse
import concurrent.futures as cf
import hashlib
import json
import os
import random
import sys
import time

sys.path.insert(0, os.path.dirname(os.path.abspath(__file__)))
import kani  # noqa: E402
import registry  # noqa: E402
import prepare  # noqa: E402

VERIF = kani.VERIF
WORK = kani.WORK


def load_known():
    p = os.path.join(VERIF, "known_findings.json")
    if not os.path.exists(p):
        return []
    return json.load(open(p)).get("findings", [])


def match_known(known, prop, harness, check_desc):
    for k in known:
        if k.get("status", "open") != "open":
            continue
        if k["property"] != prop:
            continue
        if k.get("harness") and k["harness"] != harness:
            continue
        if k.get("check") and k["check"] not in check_desc:
            continue
        return k
    return None


def run_property(prop, tier, seed, only=None):
    t0 = time.time()
    spec = registry.PROPS[prop]
    harnesses = [h for h in spec["harnesses"] if tier in h.get("tiers", ("quick", "thorough"))]
    if only:
        harnesses = [h for h in harnesses if only in h["name"]]
    seen_names = set()
    harnesses = [h for h in harnesses if not ((h["crate"], h["name"]) in seen_names or seen_names.add((h["crate"], h["name"])))]
    rnd = random.Random(seed)
    # the seed only permutes the order in which harnesses are started
    order = list(harnesses)
    rnd.shuffle(order)
    order.sort(key=lambda h: -h.get("cost", 1))  # long ones first

    crates = sorted({h["crate"] for h in harnesses})
    if prop == "C16":
        # C16 also regenerates the corpus encodings (front end, table construction and
        # generator run natively on every corpus grammar): a PANIC there falsifies C16 directly
        crates = sorted(set(crates) | {"e3", "e4"})
    prep = prepare.prepare(crates, prop, tier, seed)
    if prep.get("compiler_panic") and prop == "C16":
        cp = prep["compiler_panic"]
        os.makedirs(os.path.join(WORK, "replays"), exist_ok=True)
        path = os.path.join(WORK, "replays", "C16-compiler-panic.json")
        json.dump({"property": "C16", "harness": "corpus regeneration (native run of the real compiler; not a solver verdict)", "failed_checks": [{"description": "the compiler panicked instead of returning a parser or a diagnostic"}],
                   "reproduced_natively": ["%s %s" % (cp["grammar"], " ".join(cp["args"]))],
                   "how_to_replay": "%s %s %s --out /dev/null  (prints {\"panic\":true}); or: rcomp %s" % (os.path.join(WORK, "target-native", "release", "vdump"), cp["grammar"], " ".join(a for a in cp["args"] if not a.startswith("(")), cp["grammar"])},
                  open(path, "w"), indent=1)
        print("  the real compiler PANICKED on corpus grammar %s %s" % (cp["grammar"], " ".join(cp["args"])))
        print("VIOLATION property=C16 replay=%s" % path)
        write_evidence(prop, tier, seed, spec, [], prep, time.time() - t0, 1, note="compiler panic on a corpus grammar: " + prep["error"])
        return 1
    if prep.get("error"):
        print("INCONCLUSIVE: property=%s encoding: %s" % (prop, prep["error"]))
        write_evidence(prop, tier, seed, spec, [], prep, time.time() - t0, 0, note="encoding failed: " + prep["error"])
        return 2

    # C16: diagnostic corpus - the real public entry point run natively on grammars that must be
    # answered with a parser or an Err (concrete falsification device, labelled as such)
    diag_rc, diag_known = 0, []
    if prop == "C16" and not only:
        import gen_e4
        known_ = load_known()
        recs = gen_e4.run_diag_corpus()
        bad = [r for r in recs if r["outcome"] in ("panic", "abort")]
        fresh = []
        for r in bad:
            k = match_known(known_, prop, "diag-corpus", "%s %s" % (r["grammar"], r["where"]))
            if k:
                diag_known.append(k)
            else:
                fresh.append(r)
        prep["diag_corpus"] = {
            "what": "Settings::process_grammar (real public entry point, native build, under catch_unwind) on /verif/corpus/diag x %d settings; NOT a solver verdict" % len(gen_e4.DIAG_ARGS),
            "runs": len(recs), "parser": sum(r["outcome"] == "parser" for r in recs), "diagnostic": sum(r["outcome"] == "diagnostic" for r in recs),
            "panic_known": len(bad) - len(fresh), "panic_new": len(fresh), "timeout": sum(r["outcome"] == "timeout" for r in recs),
        }
        if fresh:
            os.makedirs(os.path.join(WORK, "replays"), exist_ok=True)
            path = os.path.join(WORK, "replays", "C16-diag-corpus.json")
            json.dump({"property": "C16", "harness": "diag-corpus (native run of the real compiler; not a solver verdict)",
                       "failed_checks": [{"description": "the compiler panicked instead of returning a parser or a diagnostic: %s %s: %s" % (r["grammar"], " ".join(r["args"]), r["where"])} for r in fresh],
                       "reproduced_natively": ["%s %s" % (r["grammar"], " ".join(r["args"])) for r in fresh],
                       "how_to_replay": "%s /verif/corpus/diag/<grammar> --out /dev/null --gen <scratch dir> <args>  (exit status 4 = panic in process_grammar)" % os.path.join(WORK, "target-native", "release", "vdump")},
                      open(path, "w"), indent=1)
            for r in fresh[:6]:
                print("  the real compiler PANICKED on diag grammar %s %s: %s" % (r["grammar"], " ".join(r["args"]), r["where"]))
            print("VIOLATION property=C16 replay=%s" % path)
            diag_rc = 1
        elif any(r["outcome"] == "timeout" for r in recs):
            print("INCONCLUSIVE: property=C16 diag-corpus: a compiler run timed out")
            diag_rc = 2

    results = []
    jobs = int(os.environ.get("VERIF_JOBS", str(kani.SLOTS)))
    with cf.ThreadPoolExecutor(max_workers=jobs) as ex:
        futs = {}
        for h in order:
            extra = list(h.get("extra", [])) + ["-Z", "stubbing"]
            tmo = h.get("timeout_thorough", h.get("timeout", 1200)) if tier == "thorough" else h.get("timeout", 1200)
            futs[ex.submit(kani.run_harness, h["crate"], h["name"], tmo, h.get("mem_gb", 12), extra)] = h
        for f in cf.as_completed(futs):
            h = futs[f]
            r = f.result()
            r["spec"] = h
            results.append(r)
            print(
                "  [%s] %-52s %-12s %6.1fs  checks=%d covers=%d/%d %s"
                % (prop, h["name"], r["status"], r["wall_s"], r["parsed"]["n_checks"], r["parsed"]["covers_satisfied"],
                   r["parsed"]["covers_total"], r["reason"]),
                flush=True,
            )

    known = load_known()
    violations = []
    known_hits = []
    inconclusive = []
    for r in results:
        h = r["spec"]
        if h.get("expect_fail"):
            # vacuity twin: must come back FAILED
            if r["status"] != "fail":
                inconclusive.append((r, "vacuity twin did not fail: %s %s" % (r["status"], r["reason"])))
            r["twin_ok"] = r["status"] == "fail"
            continue
        if r["status"] == "pass":
            continue
        if r["status"] == "inconclusive":
            inconclusive.append((r, r["reason"]))
            continue
        # fail: split into known findings and candidates
        unknown = []
        for c in r["failed_checks"]:
            k = match_known(known, prop, h["name"], c["description"])
            if k:
                known_hits.append((k, r, c))
            else:
                unknown.append(c)
        if unknown:
            violations.append((r, unknown))

    rc = 0
    replay_paths = []

    def do_replay(item):
        r, unknown = item
        h = r["spec"]
        extra = list(h.get("extra", [])) + ["-Z", "stubbing"]
        try:
            return kani.playback(h["crate"], h["name"], extra, timeout_s=max(1800, 2 * h.get("timeout", 1200)), mem_gb=max(24, h.get("mem_gb", 12) + 8))
        except Exception as e:  # tooling problem
            return {"tests": [], "error": repr(e)}

    if violations:
        print("  [%s] replaying %d counterexample(s) natively ..." % (prop, len(violations)), flush=True)
    with cf.ThreadPoolExecutor(max_workers=jobs) as ex:
        pbs = list(ex.map(do_replay, violations))
    for (r, unknown), pb in zip(violations, pbs):
        h = r["spec"]
        wanted = {c["description"] for c in unknown}
        relevant = [t for t in pb["tests"] if t["check"].get("description", "") in wanted and t.get("native_ran")]
        reproduced = [t for t in relevant if t["native_failed"]]
        os.makedirs(os.path.join(WORK, "replays"), exist_ok=True)
        path = os.path.join(WORK, "replays", "%s-%s.json" % (prop, h["name"].replace("::", ".")))
        json.dump(
            {
                "property": prop,
                "harness": h["name"],
                "crate": h["crate"],
                "failed_checks": unknown,
                "playback": pb,
                "replayed_natively": bool(relevant),
                "reproduced_natively": [t["test"] for t in reproduced],
                "how_to_replay": "cd %s && CARGO_NET_OFFLINE=true cargo kani playback -Z concrete-playback -- playback_tests::<test>" % pb.get("scratch", "?"),
                "kani_log": r["log"],
            },
            open(path, "w"),
            indent=1,
        )
        if relevant and not reproduced:
            inconclusive.append((r, "counterexample did not reproduce natively (encoding problem?) see %s" % path))
            continue
        replay_paths.append(path)
        for c in unknown:
            print("  failed: %s  [%s]%s" % (c["description"], c["location"], "" if relevant else "  (native playback unavailable; CBMC trace only)"))
        for t in reproduced[:2]:
            print("  reproduced natively: %s -> %s" % (t["values"][:300], t["native_panic"]))
        print("VIOLATION property=%s replay=%s" % (prop, path))
        rc = 1

    seen = set()
    for k in diag_known:
        known_hits.append((k, None, None))
    for k, r, c in known_hits:
        if k["id"] in seen:
            continue
        seen.add(k["id"])
        print("KNOWN-FINDING: property=%s %s" % (prop, k["what"]))

    if rc == 0 and inconclusive:
        for r, why in inconclusive:
            print("INCONCLUSIVE: property=%s harness=%s %s (log %s)" % (prop, r["spec"]["name"], why, r["log"]))
        rc = 2

    if diag_rc == 1:
        rc = 1
        replay_paths.append(os.path.join(WORK, "replays", "C16-diag-corpus.json"))
    elif diag_rc == 2 and rc == 0:
        rc = 2
    write_evidence(prop, tier, seed, spec, results, prep, time.time() - t0, len(replay_paths),
                   known=[k["id"] for k, _, _ in known_hits], inconclusive=[(r["spec"]["name"], w) for r, w in inconclusive])
    return rc


def write_evidence(prop, tier, seed, spec, results, prep, wall, violations, note=None, known=(), inconclusive=()):
    n_obl = sum(r["parsed"]["n_checks"] + r["parsed"]["covers_total"] for r in results)
    n_dis = sum(
        (r["parsed"]["n_checks"] - r["parsed"]["n_failed"] - r["parsed"]["n_undetermined"]) + r["parsed"]["covers_satisfied"]
        for r in results
        if r["status"] == "pass"
    )
    reachable = sum(r["parsed"]["n_checks"] - r["parsed"]["n_unreachable"] + r["parsed"]["covers_satisfied"] for r in results if r["status"] == "pass")
    samples = []
    for r in results:
        h = r["spec"]
        samples.append(
            {
                "harness": "%s::%s" % (h["crate"], h["name"]),
                "decides": h.get("decides", ""),
                "bounds": h.get("bounds", ""),
                "status": r["status"] if not h.get("expect_fail") else ("twin-failed-as-required" if r.get("twin_ok") else "twin-" + r["status"]),
                "cbmc_properties": r["parsed"]["n_checks"],
                "failed": r["parsed"]["n_failed"],
                "unreachable": r["parsed"]["n_unreachable"],
                "covers_satisfied": "%d/%d" % (r["parsed"]["covers_satisfied"], r["parsed"]["covers_total"]),
                "cover_witnesses": [c["description"] for c in r["parsed"]["checks"] if ".cover." in c["id"] and c["status"] == "SATISFIED"][:12],
                "solver_s": round(r["parsed"]["solver_time_s"], 2),
                "wall_s": r["wall_s"],
            }
        )
    functions = sorted({f for h in spec["harnesses"] for f in h.get("functions", [])})
    ev = {
        "property_id": prop,
        "tier": tier,
        "seed": seed,
        "level": spec["level"],
        "coverage": {
            "explanation": spec["explanation"]
            + " This run: %d harnesses, %d solver obligations (CBMC properties + cover queries), %d discharged, solver time %.1fs."
            % (len(results), n_obl, n_dis, sum(r["parsed"]["solver_time_s"] for r in results)),
            "technique": "bounded model checking of the compiled real code (Kani 0.68 / CBMC 6.11 / CaDiCaL); inputs symbolic, verdict by the solver",
            "functions_encoded": functions,
            "slices": prep.get("slices", {}),
            "generated": prep.get("generated", {}),
            "diag_corpus": prep.get("diag_corpus", {}),
            "harnesses": len(results),
            "obligations": n_obl,
            "discharged": n_dis,
            "evaluations": max(n_obl, 1),
            "distinct_nontrivial": max(reachable, 0),
            "rule": "one evaluation = one solver-decided obligation (a CBMC property or a cover query) of a harness; non-trivial = reachable (status not UNREACHABLE) in a harness that passed; each obligation is a distinct program location x property class",
            "samples": samples,
            "solver_time_s": round(sum(r["parsed"]["solver_time_s"] for r in results), 2),
            "residual_not_decided": spec.get("residual", ""),
            "exhaustive": False,
            "known_findings_hit": sorted(set(known)),
            "inconclusive": [list(x) for x in inconclusive],
        },
        "assumptions": spec.get("assumptions", []) + prep.get("assumptions", []),
        "wall_s": round(wall, 1),
        "violations": violations,
    }
    if note:
        ev["coverage"]["note"] = note
    os.makedirs(os.path.join(VERIF, "evidence"), exist_ok=True)
    json.dump(ev, open(os.path.join(VERIF, "evidence", "%s.json" % prop), "w"), indent=1)


def main():
    ap = argparse.ArgumentParser()
    ap.add_argument("prop")
    ap.add_argument("--tier", default=os.environ.get("VERIF_TIER", "quick"))
    ap.add_argument("--only", default=None, help="substring filter on harness names (debugging)")
    ap.add_argument("--replay", default=None)
    a = ap.parse_args()
    if a.replay:
        d = json.load(open(a.replay))
        print(json.dumps({k: d[k] for k in ("property", "harness", "failed_checks", "reproduced_natively", "how_to_replay")}, indent=1))
        return 0
    seed = int(os.environ.get("VERIF_SEED", "0") or 0)
    tier = a.tier if a.tier in ("quick", "thorough") else "quick"
    if a.prop not in registry.PROPS:
        print("unknown or not-applicable property %s" % a.prop)
        return 2
    return run_property(a.prop, tier, seed, a.only)


if __name__ == "__main__":
    sys.exit(main())
