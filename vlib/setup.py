#!/usr/bin/env python3
"""setup_cmd: builds, offline, everything the checks need: the native dump tool (against
/repo with feature verif) and the dependency builds of the harness crates in every slot."""
import os
import shutil
import subprocess
import sys

sys.path.insert(0, os.path.dirname(os.path.abspath(__file__)))
import kani  # noqa: E402
import prepare  # noqa: E402
import gen_e4  # noqa: E402

VERIF = kani.VERIF
WORK = kani.WORK


def main():
    os.makedirs(os.path.join(WORK, "slots"), exist_ok=True)
    os.makedirs(os.path.join(WORK, "logs"), exist_ok=True)
    print("[setup] native tool (vdump) ...", flush=True)
    gen_e4.build_native()
    print("[setup] regenerating slices / tables ...", flush=True)
    r = prepare.prepare(["e1", "e2", "e3", "e4"], "setup", "quick", 0)
    if r.get("error"):
        print("[setup] encoding error: %s" % r["error"])
        return 1
    rc = 0
    for crate in ("e1", "e2", "e3", "e4"):
        cdir = os.path.join(VERIF, "kani", crate)
        if not os.path.isdir(cdir):
            continue
        td = os.path.join(WORK, "slots", "0", crate)
        os.makedirs(td, exist_ok=True)
        print("[setup] kani codegen of %s (slot 0) ..." % crate, flush=True)
        p = subprocess.run(["cargo", "kani", "--target-dir", td, "--only-codegen", "-Z", "stubbing"], cwd=cdir, env=kani.ENV, capture_output=True, text=True)
        if p.returncode != 0:
            print(p.stdout[-1500:] + p.stderr[-1500:])
            rc = 1
            continue
        for i in range(1, kani.SLOTS):
            dst = os.path.join(WORK, "slots", str(i), crate)
            if not os.path.exists(dst):
                os.makedirs(os.path.dirname(dst), exist_ok=True)
                shutil.copytree(td, dst, symlinks=True)
    print("[setup] done rc=%d" % rc)
    return rc


if __name__ == "__main__":
    sys.exit(main())
