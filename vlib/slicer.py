"""Structural source slicing of /repo (E2).

Regions are located by structural anchors (a function signature, or a statement prefix
inside a named function) and brace matching - never by line numbers - and are copied
byte for byte. A missing anchor raises SliceError (-> INCONCLUSIVE, never a violation).
"""
import hashlib
import os
import re

REPO = os.environ.get("VERIF_REPO", "/repo")


class SliceError(Exception):
    pass


def read(rel):
    p = os.path.join(REPO, rel)
    try:
        return open(p, encoding="utf-8").read()
    except OSError as e:
        raise SliceError("cannot read %s: %s" % (p, e))


def _skip_string(s, i):
    # s[i] == '"'
    i += 1
    while i < len(s):
        c = s[i]
        if c == "\\":
            i += 2
            continue
        if c == '"':
            return i + 1
        i += 1
    raise SliceError("unterminated string literal")


def _skip_raw_string(s, i):
    # s[i] == 'r' and a raw string starts here; returns index after it or None
    m = re.match(r'r(#*)"', s[i:])
    if not m:
        return None
    hashes = m.group(1)
    end = s.find('"' + hashes, i + len(m.group(0)))
    if end < 0:
        raise SliceError("unterminated raw string")
    return end + 1 + len(hashes)


def _skip_char_or_lifetime(s, i):
    # s[i] == "'"
    m = re.match(r"'(\\x[0-9a-fA-F]{2}|\\u\{[0-9a-fA-F_]+\}|\\.|[^\\'])'", s[i:])
    if m:
        return i + len(m.group(0))
    return i + 1  # lifetime / label


def code_chars(s, i, n=None):
    """Yields (index, char) for every character of s[i:n] that is code (not inside a
    string / char literal / comment)."""
    n = len(s) if n is None else n
    while i < n:
        c = s[i]
        if c == "/" and s.startswith("//", i):
            j = s.find("\n", i)
            i = n if j < 0 else j
            continue
        if c == "/" and s.startswith("/*", i):
            d = 1
            i += 2
            while i < n and d:
                if s.startswith("/*", i):
                    d += 1
                    i += 2
                elif s.startswith("*/", i):
                    d -= 1
                    i += 2
                else:
                    i += 1
            continue
        if c == '"':
            i = _skip_string(s, i)
            continue
        if c == "r" and (i == 0 or not (s[i - 1].isalnum() or s[i - 1] == "_")):
            j = _skip_raw_string(s, i)
            if j is not None:
                i = j
                continue
        if c == "b" and i + 1 < n and s[i + 1] == '"' and (i == 0 or not (s[i - 1].isalnum() or s[i - 1] == "_")):
            i = _skip_string(s, i + 1)
            continue
        if c == "'":
            i = _skip_char_or_lifetime(s, i)
            continue
        yield i, c
        i += 1


def match_brace(s, i):
    """s[i] == '{' -> index just after the matching '}'."""
    assert s[i] == "{", "match_brace must start at '{'"
    depth = 0
    for j, c in code_chars(s, i):
        if c == "{":
            depth += 1
        elif c == "}":
            depth -= 1
            if depth == 0:
                return j + 1
    raise SliceError("unbalanced braces")


def find_unique(pattern, s, what, start=0, end=None):
    ms = list(re.finditer(pattern, s[start:end] if end is not None else s[start:], re.S))
    if len(ms) != 1:
        raise SliceError("anchor %s: %d matches (need exactly 1) for /%s/" % (what, len(ms), pattern))
    m = ms[0]
    return start + m.start(), start + m.end()


def fn_span(s, sig_pattern, what):
    """Span (start_of_signature, index_of_body_open_brace, end) of the function whose
    signature matches sig_pattern (regex, matched once)."""
    a, b = find_unique(sig_pattern, s, what)
    # the body starts at the first '{' outside parentheses/brackets after the `fn` keyword
    depth = 0
    i = None
    for j, c in code_chars(s, a):
        if c in "([":
            depth += 1
        elif c in ")]":
            depth -= 1
        elif c == "{" and depth == 0:
            i = j
            break
        elif c == ";" and depth == 0:
            raise SliceError("anchor %s: declaration without a body" % what)
    if i is None:
        raise SliceError("anchor %s: no body" % what)
    return a, i, match_brace(s, i)


def fn_body(s, sig_pattern, what):
    """The `{ ... }` body (with braces) of the function."""
    _, i, e = fn_span(s, sig_pattern, what)
    return s[i:e]


def fn_whole(s, sig_pattern, what):
    a, _, e = fn_span(s, sig_pattern, what)
    return s[a:e]


def block_after(s, fn_sig_pattern, stmt_pattern, what):
    """Inside the named function, the `{ ... }` block that follows the (unique) statement
    prefix matched by stmt_pattern (which must end right before the '{')."""
    _, i, e = fn_span(s, fn_sig_pattern, what + " (enclosing fn)")
    a, b = find_unique(stmt_pattern, s, what, i, e)
    j = b
    while j < e and s[j] in " \t\r\n":
        j += 1
    if j >= e or s[j] != "{":
        raise SliceError("anchor %s: statement prefix is not followed by a block" % what)
    return s[j:match_brace(s, j)]


def region_to_block_end(s, fn_sig_pattern, start_pattern, block_stmt_pattern, what):
    """Inside the named function: text from the start of start_pattern's (unique) match to the
    end of the `{..}` block that follows block_stmt_pattern's (unique) match."""
    _, i, e = fn_span(s, fn_sig_pattern, what + " (enclosing fn)")
    a, _ = find_unique(start_pattern, s, what + " (start)", i, e)
    _, b = find_unique(block_stmt_pattern, s, what + " (block)", i, e)
    j = b
    while j < e and s[j] in " \t\r\n":
        j += 1
    if j >= e or s[j] != "{" or j < a:
        raise SliceError("anchor %s: block not found after the start anchor" % what)
    return s[a:match_brace(s, j)]


def region(s, fn_sig_pattern, start_pattern, end_pattern, what, include_end=True):
    """Inside the named function: text from the start of start_pattern's match up to the end
    (or start) of end_pattern's first match after it."""
    _, i, e = fn_span(s, fn_sig_pattern, what + " (enclosing fn)")
    a, b = find_unique(start_pattern, s, what + " (start)", i, e)
    m = re.search(end_pattern, s[b:e], re.S)
    if not m:
        raise SliceError("anchor %s (end): no match for /%s/" % (what, end_pattern))
    return s[a:b + (m.end() if include_end else m.start())]


def without_item(s, pattern, what):
    """The text with the (unique) braced item matched by pattern blanked out (used to keep
    the feature-gated verif hook module out of the way of the anchors)."""
    ms = list(re.finditer(pattern, s))
    if not ms:
        return s
    if len(ms) != 1:
        raise SliceError("anchor %s: %d matches" % (what, len(ms)))
    a, _, e = fn_span(s, pattern, what)
    return s[:a] + s[e:]


def without_fn(s, fn_pattern, what):
    """The text with the (unique) function matched by fn_pattern removed, together with the
    doc comments / attributes directly above it."""
    a, _, e = fn_span(s, fn_pattern, what)
    # extend upwards over contiguous `///` / `#[..]` lines
    start = s.rfind("\n", 0, a) + 1
    while True:
        prev_end = start - 1
        if prev_end <= 0:
            break
        prev_start = s.rfind("\n", 0, prev_end) + 1
        line = s[prev_start:prev_end].strip()
        if line.startswith("///") or line.startswith("#["):
            start = prev_start
        else:
            break
    return s[:start] + s[e:]


def sha(text):
    return hashlib.sha256(text.encode("utf-8")).hexdigest()


def write_slices(out_dir, slices):
    """slices: name -> (text, source_path). Writes <name>.rs files; returns evidence dict."""
    os.makedirs(out_dir, exist_ok=True)
    ev = {}
    for name, (text, src) in slices.items():
        p = os.path.join(out_dir, name + ".rs")
        old = open(p).read() if os.path.exists(p) else None
        if old != text:
            open(p, "w").write(text)
        ev[name] = {"source": src, "sha256": sha(text), "lines": text.count("\n") + 1}
    return ev
